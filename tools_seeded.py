#!/usr/bin/env python3
"""Vet a sub-agent's seeded change and file it under /verif/seeded/<id>/.

usage: tools_seeded.py <PROP> <agent_out_dir> <n> [--props C08,C10]

Steps (all on a scratch copy of /repo/src under $TMPDIR, removed afterwards):
  1. patch applies cleanly               2. pinned suite (413 tests) passes with it
  3. demo.py exits 1 with the patch       4. demo.py exits 0 without it
  5. run the named property's quick check (and optionally others) against the patched tree
and write patch.diff, demo.py, meta.json.
"""
import json
import os
import shutil
import subprocess
import sys
import tempfile

VERIF = os.path.dirname(os.path.abspath(__file__))
PY = "/venv/bin/python"


def sh(cmd, **kw):
    return subprocess.run(cmd, capture_output=True, text=True, **kw)


def main():
    prop, outdir, n = sys.argv[1], sys.argv[2], sys.argv[3]
    props = [prop]
    if "--props" in sys.argv:
        props = sys.argv[sys.argv.index("--props") + 1].split(",")
    src = os.path.join(outdir, n)
    patch = open(os.path.join(src, "patch.diff")).read()
    notes = open(os.path.join(src, "notes.txt")).read() if os.path.exists(os.path.join(src, "notes.txt")) else ""
    root = tempfile.mkdtemp(prefix="seeded_")
    meta = {"property": prop, "source": "independent sub-agent given only the property text and a scratch worktree", "needs": notes.strip()}
    try:
        shutil.copytree("/repo/src", os.path.join(root, "src"), ignore=shutil.ignore_patterns("__pycache__", "*.egg-info"))
        clean = tempfile.mkdtemp(prefix="seeded_clean_")
        shutil.copytree("/repo/src", os.path.join(clean, "src"), ignore=shutil.ignore_patterns("__pycache__", "*.egg-info"))
        p = sh(["patch", "-p1", "-s", "-d", root], input=patch)
        meta["patch_applies"] = p.returncode == 0
        if p.returncode != 0:
            print("PATCH DOES NOT APPLY", p.stdout, p.stderr)
            return 1
        t = sh([PY, "-m", "pytest", "-q", "-x", "-p", "no:cacheprovider", "/repo/tests"], env=dict(os.environ, PYTHONPATH=os.path.join(root, "src")), cwd=root)
        meta["pinned_suite_passes_with_patch"] = t.returncode == 0
        meta["pinned_suite_tail"] = t.stdout.strip().splitlines()[-1] if t.stdout.strip() else ""
        demo = os.path.join(src, "demo.py")
        d1 = sh([PY, demo], env=dict(os.environ, PYTHONPATH=os.path.join(root, "src")), cwd=root, timeout=300)
        d0 = sh([PY, demo], env=dict(os.environ, PYTHONPATH=os.path.join(clean, "src")), cwd=clean, timeout=300)
        meta["demo_exit_with_patch"] = d1.returncode
        meta["demo_exit_without_patch"] = d0.returncode
        shutil.rmtree(clean, ignore_errors=True)
        results = {}
        for pr in props:
            env = dict(os.environ, SIMLDAP_REPO_SRC=os.path.join(root, "src"), SIMLDAP_NO_EVIDENCE="1", PYTHONHASHSEED="0")
            c = sh([PY, os.path.join(VERIF, "main.py"), pr, "--tier", "quick"], env=env, timeout=3000)
            out = c.stdout + c.stderr
            classes = sorted(set(l.split("class=")[1].split()[0] for l in out.splitlines() if l.strip().startswith("class=")))
            results[pr] = {"exit": c.returncode, "classes": classes, "tail": out.strip().splitlines()[-1][:300] if out.strip() else ""}
        meta["checks_run"] = {pr: "./check %s --tier quick with SIMLDAP_REPO_SRC=<scratch copy of /repo/src + patch>" % pr for pr in props}
        meta["check_results"] = results
        meta["caught_by"] = [pr for pr, r in results.items() if r["exit"] == 1]
        valid = meta["pinned_suite_passes_with_patch"] and meta["demo_exit_with_patch"] == 1 and meta["demo_exit_without_patch"] == 0
        meta["confirmed_valid"] = valid
        print(json.dumps({k: meta[k] for k in ("pinned_suite_passes_with_patch", "demo_exit_with_patch", "demo_exit_without_patch",
                                                 "caught_by", "check_results")}, indent=1))
        if valid or "--keep" in sys.argv:
            dst = os.path.join(VERIF, "seeded", "%s-%s%s" % (prop, os.environ.get("SEEDED_PREFIX", ""), n))
            os.makedirs(dst, exist_ok=True)
            open(os.path.join(dst, "patch.diff"), "w").write(patch)
            shutil.copy(demo, os.path.join(dst, "demo.py"))
            json.dump(meta, open(os.path.join(dst, "meta.json"), "w"), indent=1)
            print("filed under", dst)
        else:
            print("NOT VALID - not filed")
    finally:
        shutil.rmtree(root, ignore_errors=True)
    return 0


if __name__ == "__main__":
    sys.exit(main())
