#!/usr/bin/env python3
"""Refresh seeded/*/meta.json from the result file of `./check selftest seeded` and regenerate the full table in DESIGN.md.

usage: tools_seeded_table.py <selftest_seeded.json>

For every row of the result file the entry's meta.json gets
  "last_regression": {"check": ..., "exit": ..., "classes": [...]}   and   "caught_by": [checks that exited 1]
(entries marked "expected_miss" are left alone).  The table between the line starting with "Full table (" and the next
"### " heading of DESIGN.md is rebuilt from all meta.json files.
"""
import json
import os
import re
import sys

VERIF = os.path.dirname(os.path.abspath(__file__))


def key(name):
    m = re.match(r"(C\d\d)-(?:r(\d+)-)?(\d+)$", name)
    return (m.group(1), int(m.group(2) or 1), int(m.group(3)))


def main():
    rows = json.load(open(sys.argv[1]))["rows"] if len(sys.argv) > 1 else []
    by = {}
    for r in rows:
        by.setdefault(r["id"], []).append(r)
    sd = os.path.join(VERIF, "seeded")
    names = sorted((n for n in os.listdir(sd) if os.path.exists(os.path.join(sd, n, "meta.json"))), key=key)
    lines = ["| seeded change | caught by | first classes | what it is / needs (from the seeder's notes) |", "|---|---|---|---|"]
    for n in names:
        p = os.path.join(sd, n, "meta.json")
        md = json.load(open(p))
        if n in by and not md.get("expected_miss"):
            caught = [r["check"] for r in by[n] if r["exit"] == 1]
            md["last_regression"] = [{"check": r["check"], "exit": r["exit"], "classes": r["classes"]} for r in by[n]]
            if caught:
                md["caught_by"] = caught
            json.dump(md, open(p, "w"), indent=1)
        if md.get("expected_miss"):
            cb, cl = "- (by design)", md["expected_miss"][:80]
        else:
            cb = ", ".join(md.get("caught_by") or []) or "?"
            cls = []
            for r in md.get("last_regression") or []:
                if r["exit"] == 1:
                    cls += [c.split("/", 1)[1] if "/" in c else c for c in r["classes"][:2]]
            if not cls:
                for v in (md.get("check_results") or {}).values():
                    if v.get("exit") == 1:
                        cls += [c.split("/", 1)[1] if "/" in c else c for c in v.get("classes", [])[:2]]
            cl = ", ".join(cls[:3])
        needs = " ".join((md.get("needs") or "").split())[:230].replace("|", "/")
        lines.append("| %s | %s | %s | %s |" % (n, cb, cl, needs))
    dp = os.path.join(VERIF, "DESIGN.md")
    s = open(dp).read()
    a = s.index("Full table (")
    a = s.index("\n", a) + 1
    b = s.index("\n### ", a)
    s = s[:a] + "\n" + "\n".join(lines) + "\n" + s[b:]
    open(dp, "w").write(s)
    print("%d entries; table rewritten" % len(names))


if __name__ == "__main__":
    main()
