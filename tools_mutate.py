#!/usr/bin/env python3
"""Systematic (operator-based) mutation of the library as a sensitivity measure for the checks.

usage: tools_mutate.py <module file under src/sansldap> <checks, comma separated> [--runs-div N] [--limit K] [--jobs J]

For every single-point AST mutation of the file (comparison operators, and/or, not, if-condition negation,
integer constants +-1, isinstance tuple element drop, statement deletion of simple statements) it
  1. writes a scratch copy of /repo/src with the mutation,
  2. runs the pinned test suite against it (mutants the suite kills are not interesting),
  3. for surviving mutants runs the named checks (quick tier, runs divided by --runs-div) with SIMLDAP_REPO_SRC.
Results go to out/mutation/<module>.jsonl (one line per surviving mutant: location, description, per-check exit code + classes).
Surviving mutants that no check catches need a human look: many are equivalent (no behavioural change), the rest are blind spots.
"""
import ast
import concurrent.futures as cf
import copy
import json
import os
import shutil
import subprocess
import sys
import tempfile

VERIF = os.path.dirname(os.path.abspath(__file__))
PY = "/venv/bin/python"

CMP = {ast.Eq: ast.NotEq, ast.NotEq: ast.Eq, ast.Lt: ast.LtE, ast.LtE: ast.Lt, ast.Gt: ast.GtE, ast.GtE: ast.Gt,
       ast.Is: ast.IsNot, ast.IsNot: ast.Is, ast.In: ast.NotIn, ast.NotIn: ast.In}


class Collector(ast.NodeVisitor):
    def __init__(self):
        self.sites = []

    def generic_visit(self, node):
        if isinstance(node, ast.Compare) and len(node.ops) == 1 and type(node.ops[0]) in CMP:
            self.sites.append(("cmp", node))
        if isinstance(node, ast.BoolOp):
            self.sites.append(("boolop", node))
        if isinstance(node, ast.UnaryOp) and isinstance(node.op, ast.Not):
            self.sites.append(("not", node))
        if isinstance(node, (ast.If, ast.While)) and not isinstance(node.test, ast.Constant):
            self.sites.append(("negate", node))
        if isinstance(node, ast.Constant) and isinstance(node.value, int) and not isinstance(node.value, bool):
            self.sites.append(("const+", node))
            self.sites.append(("const-", node))
        if isinstance(node, ast.Call) and isinstance(node.func, ast.Name) and node.func.id == "isinstance" and len(node.args) == 2 \
                and isinstance(node.args[1], ast.Tuple) and len(node.args[1].elts) > 1:
            for i in range(len(node.args[1].elts)):
                self.sites.append(("isinst-%d" % i, node))
        if isinstance(node, (ast.Assign, ast.AugAssign, ast.Expr, ast.Raise)) and not (
                isinstance(node, ast.Expr) and isinstance(getattr(node, "value", None), ast.Constant)):
            self.sites.append(("delete", node))
        if isinstance(node, ast.Return) and node.value is not None and not isinstance(node.value, ast.Constant):
            pass
        super().generic_visit(node)


def mutate(tree, kind, target):
    """Return (new_source, description) for mutation `kind` at node `target` (matched by position)."""
    key = (type(target).__name__, target.lineno, target.col_offset, getattr(target, "end_col_offset", None))
    t2 = copy.deepcopy(tree)
    for node in ast.walk(t2):
        if (type(node).__name__, getattr(node, "lineno", None), getattr(node, "col_offset", None),
                getattr(node, "end_col_offset", None)) != key:
            continue
        if kind == "cmp":
            node.ops = [CMP[type(node.ops[0])]()]
        elif kind == "boolop":
            node.op = ast.Or() if isinstance(node.op, ast.And) else ast.And()
        elif kind == "not":
            return _replace(t2, node, node.operand), "drop not"
        elif kind == "negate":
            node.test = ast.UnaryOp(op=ast.Not(), operand=node.test)
        elif kind == "const+":
            node.value = node.value + 1
        elif kind == "const-":
            node.value = node.value - 1
        elif kind.startswith("isinst-"):
            i = int(kind.split("-")[1])
            del node.args[1].elts[i]
        elif kind == "delete":
            return _replace(t2, node, ast.Pass()), "delete statement"
        break
    ast.fix_missing_locations(t2)
    return ast.unparse(t2), kind


def _replace(tree, old, new):
    for parent in ast.walk(tree):
        for field, value in ast.iter_fields(parent):
            if isinstance(value, list):
                for i, v in enumerate(value):
                    if v is old:
                        value[i] = new
            elif value is old:
                setattr(parent, field, new)
    ast.fix_missing_locations(tree)
    return ast.unparse(tree)


def run_one(args):
    idx, relfile, kind, lineno, col, src_text, checks, runs_div = args
    root = tempfile.mkdtemp(prefix="mut_")
    try:
        shutil.copytree("/repo/src", os.path.join(root, "src"), ignore=shutil.ignore_patterns("__pycache__", "*.egg-info"))
        open(os.path.join(root, "src", "sansldap", relfile), "w").write(src_text)
        env = dict(os.environ, PYTHONPATH=os.path.join(root, "src"))
        t = subprocess.run([PY, "-m", "pytest", "-q", "-x", "-p", "no:cacheprovider", "--timeout=120", "/repo/tests"], env=env,
                           capture_output=True, text=True, cwd=root, timeout=900)
        if t.returncode != 0:
            return {"idx": idx, "kind": kind, "line": lineno, "col": col, "suite": "killed"}
        res = {}
        for pr in checks:
            from_runs = {"C02": 1600, "C05": 40000, "C06": 60000, "C08": 10000, "C09": 16000, "C10": 24000, "C11": 3200, "C12": 12000, "C19": 4000}[pr]
            env2 = dict(os.environ, SIMLDAP_REPO_SRC=os.path.join(root, "src"), SIMLDAP_NO_EVIDENCE="1", PYTHONHASHSEED="0",
                        SIMLDAP_SHRINK_SECONDS="5")
            c = subprocess.run([PY, os.path.join(VERIF, "main.py"), pr, "--tier", "quick", "--runs", str(max(200, from_runs // runs_div)),
                                "--workers", "4"], env=env2, capture_output=True, text=True, timeout=3000)
            out = c.stdout + c.stderr
            classes = sorted(set(l.split("class=")[1].split()[0] for l in out.splitlines() if l.strip().startswith("class=")))
            res[pr] = {"exit": c.returncode, "classes": classes[:4]}
            if c.returncode == 1:
                break  # caught: no need to run the other checks
        return {"idx": idx, "kind": kind, "line": lineno, "col": col, "suite": "survived", "checks": res,
                "caught": any(r["exit"] == 1 for r in res.values())}
    except subprocess.TimeoutExpired:
        return {"idx": idx, "kind": kind, "line": lineno, "col": col, "suite": "timeout"}
    finally:
        shutil.rmtree(root, ignore_errors=True)


def main():
    relfile = sys.argv[1]
    checks = sys.argv[2].split(",")
    runs_div = int(sys.argv[sys.argv.index("--runs-div") + 1]) if "--runs-div" in sys.argv else 3
    limit = int(sys.argv[sys.argv.index("--limit") + 1]) if "--limit" in sys.argv else 10 ** 9
    jobs = int(sys.argv[sys.argv.index("--jobs") + 1]) if "--jobs" in sys.argv else 4
    path = os.path.join("/repo/src/sansldap", relfile)
    text = open(path).read()
    tree = ast.parse(text)
    col = Collector()
    col.visit(tree)
    lines = text.splitlines()
    tasks = []
    seen = set()
    for i, (kind, node) in enumerate(col.sites):
        try:
            new_src, _d = mutate(tree, kind, node)
        except Exception:  # noqa: BLE001
            continue
        if new_src in seen or new_src == ast.unparse(tree):
            continue
        seen.add(new_src)
        tasks.append((i, relfile, kind, node.lineno, node.col_offset, new_src, checks, runs_div))
    tasks = tasks[:limit]
    os.makedirs(os.path.join(VERIF, "out", "mutation"), exist_ok=True)
    outp = os.path.join(VERIF, "out", "mutation", relfile.replace(".py", "") + ".jsonl")
    print("%d mutants of %s" % (len(tasks), relfile), flush=True)
    n = {"killed": 0, "survived": 0, "caught": 0, "missed": 0, "timeout": 0}
    with open(outp, "w") as fh, cf.ThreadPoolExecutor(max_workers=jobs) as ex:
        for r in ex.map(run_one, tasks):
            r["source_line"] = lines[r["line"] - 1].strip()[:120] if 0 < r["line"] <= len(lines) else ""
            fh.write(json.dumps(r) + "\n")
            fh.flush()
            n[r["suite"]] = n.get(r["suite"], 0) + 1
            if r["suite"] == "survived":
                n["caught" if r["caught"] else "missed"] += 1
                if not r["caught"]:
                    print("MISSED %s:%d:%d %-8s %s" % (relfile, r["line"], r["col"], r["kind"], r["source_line"]), flush=True)
    print("summary %s: %s" % (relfile, n), flush=True)


if __name__ == "__main__":
    main()
