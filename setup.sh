#!/bin/bash
# Nothing to build: the checks are pure Python and import /repo/src of the working tree.
set -e
cd "$(dirname "$0")"
PY=/venv/bin/python
[ -x "$PY" ] || PY=python3
"$PY" - <<'PY'
import sys
sys.path.insert(0, "/repo/src")
import sansldap, os
assert os.path.realpath(sansldap.__file__).startswith("/repo/src/"), sansldap.__file__
print("setup ok: python", sys.version.split()[0], "sansldap from", sansldap.__file__)
PY
mkdir -p out/replays evidence
