import os
import sys

sys.path.insert(0, os.path.dirname(os.path.abspath(__file__)))
from simldap.cli import main  # noqa: E402

sys.exit(main())
