#!/usr/bin/env python3
"""Regenerates MANIFEST.json from the table below (keeps it valid and in one place)."""
import json
import os

HERE = os.path.dirname(os.path.abspath(__file__))

NA = {
    "C01": "pure function of one message value (encode->decode round trip): no schedule, fault, interleaving, time or second party; value generation is not simulation (DESIGN 4)",
    "C03": "pure function of one message value (conformance of pack() output to RFC 4511): needs an independent decoder over values, no schedule or fault involved (DESIGN 4)",
    "C04": "pure function of one byte string (acceptance of alternative BER forms); a 'foreign peer with encoding knobs' would only be input generation in simulator vocabulary (DESIGN 4)",
    "C07": "pure arithmetic on one value (BER integer/tag/length/boolean primitives); nothing for a scheduler or fault injector to act on (DESIGN 4)",
    "C13": "pure function of one filter value (object -> text -> object); no session, I/O, schedule or fault (DESIGN 4)",
    "C14": "pure function of one string (RFC 4515 parse vs reference parser); no session, I/O, schedule or fault (DESIGN 4)",
    "C15": "pure function of one string (totality / faithfulness of the filter text parser); no session, I/O, schedule or fault (DESIGN 4)",
    "C16": "pure function of one schema definition value (object -> text -> object); no session, I/O, schedule or fault (DESIGN 4)",
    "C17": "pure function of one string (RFC 4512 parse vs reference parser); no session, I/O, schedule or fault (DESIGN 4)",
    "C18": "performance of pure parsing functions: a simulator's clock is virtual and cannot observe the C regex engine where the super-polynomial risk lives; wall-clock measurement is a different technique (DESIGN 4)",
}

CHECKS = {}


def load_checks():
    p = os.path.join(HERE, "manifest_checks.json")
    return json.load(open(p)) if os.path.exists(p) else {}


def main():
    checks = []
    for pid, c in sorted(load_checks().items()):
        checks.append({
            "property_id": pid,
            "quick_cmd": "./check %s --tier quick" % pid,
            "thorough_cmd": "./check %s --tier thorough" % pid,
            "evidence_file": "/verif/evidence/%s.json" % pid,
            "replay_cmd_template": "./check replay {path}",
            "engine": "simldap",
            "level_claimed": {"category": c["category"], "text": c["text"], "design_ref": c["design_ref"]},
            "level_note": c["note"],
            "technique": c["technique"],
        })
    na = dict(NA)
    doc = {
        "version": 1,
        "setup_cmd": "./setup.sh",
        "hooks": {
            "guard": "SANSLDAP_VERIF",
            "enable": "no hook sites exist: the public API (receive / data_to_send / request+response calls) is the seam; checks import /repo/src of the working tree directly",
            "baseline_off_cmd": "cd /repo && /venv/bin/python -m pytest -ra -q -p no:cacheprovider --timeout=900 --continue-on-collection-errors",
            "source_commits": [],
            "add_only": True,
        },
        "engines": [{
            "name": "simldap",
            "path": "/verif/simldap",
            "serves_properties": sorted(load_checks().keys()),
            "kind_free_text": "deterministic single-process simulation of real sansldap client/server sessions joined by simulated byte pipes, with seeded scheduler, byzantine peers, structure-aware wire fault injector, reference session model, independent BER/RFC4511 oracle, ddmin shrinking and op-list replay files",
        }],
        "checks": checks,
        "not_applicable": [{"property_id": k, "reason": v} for k, v in sorted(na.items())],
        "notes": "See DESIGN.md. Exit codes: 0 held, 1 VIOLATION, 2 harness error. KNOWN_FINDINGS.txt lists repaired (fixed:) and open (known:) defects.",
    }
    json.dump(doc, open(os.path.join(HERE, "MANIFEST.json"), "w"), indent=1)
    print("MANIFEST.json written: %d checks, %d not applicable" % (len(checks), len(na)))


if __name__ == "__main__":
    main()
