"""C09 - client correlates responses to requests strictly by message id (DESIGN 5.5).

Real LDAPClient; the server is a byzantine stub emitting well-formed RFC 4511 messages (own
encoder) of every kind with every candidate id.
"""
from __future__ import annotations

from .. import ber, policy, rfc4511
from ..rfc4511 import NOTICE_OID, REQUEST_KINDS
from ..values import Gen
from ..world import Violation, World
from .base import PropBase, St

P = "C09"

CLIENT_M = ("bind", "bind_simple", "bind_sasl", "search_request", "extended_request")
_TAG = {"bind": 0, "bind_simple": 0, "bind_sasl": 0, "search_request": 3, "extended_request": 23, "unbind": 2}
ID_CLASSES = ("search", "nonsearch", "completed", "next", "zero", "large", "alias")


def cid_class(model, mid):
    if not isinstance(mid, int):
        return "none"
    if mid in model.srch:
        return "search"
    if mid in model.out:
        return "nonsearch"
    if mid == 0:
        return "zero"
    if mid in model.retired:
        return "completed"
    if mid == model.last_id + 1:
        return "next"
    if any((mid - o) % 256 == 0 for o in model.out):
        return "alias"
    return "large"


class C09(PropBase):
    ID = P
    RULE = ("one run = one seeded history of a real client whose application issues bind/search/extended requests (legal and "
            "illegal) while a byzantine server stub answers with every response kind x id class {in-progress search, "
            "in-progress non-search, completed, next unissued, 0, large}, duplicates, responses after done, request-type "
            "messages, chunked deliveries; non-trivial = at least one response for a non-in-progress id or a duplicate final "
            "response delivered while the client was open, and at least two requests in progress at some point; distinct = set of "
            "(response kind, id class, outcome) cells + request-call outcomes visited")
    ASSUMPTIONS = ["ids need to be positive and strictly increasing, not consecutive",
                   "acceptance of a response depends on its id alone (any response kind completes a non-search operation)"]
    RUNS = {"quick": 16000, "thorough": 240000}
    STEPS = {"quick": 70, "thorough": 140}
    REQUIRED_CELLS = tuple("%s/%s" % (k, c) for k in policy.RESPONSE_KINDS for c in ID_CLASSES)
    REQUIRED_REACH = ("call_on_copy_first", "dup_final", "response_after_done", "entry_for_nonsearch", "request_to_client", "id_after_refused_call",
                      "refused_search_while_binding_then_response", "notice_or_unbind_to_client", "two_in_progress",
                      "closed_then_request_probes", "long_session_preroll", "unimplemented_protocol_op_to_client")

    def init_op(self, rng):
        return {"op": "init", "sessions": [{"name": "c", "role": "c"}], "observe_pending": True, "invalid_units": True,
                "illegal_p": rng.choice([0.1, 0.3, 0.5]), "bad_p": rng.choice([0.05, 0.12, 0.3]),
                "chunk": rng.choice(["whole", "whole", "mixed", "byte"]), "big": rng.choice([0.03, 0.12]), "style": policy.wire_style(rng),
                "preroll": rng.choice([0] * 23 + [130, 258]), "bad_text": rng.choice([0.0, 0.0, 0.04]),
                "long_preroll": 32770 if rng.random() < 0.002 else 0}

    def make(self, init):
        st = St(World(init))
        st.x = {"cells": set(), "bad_delivered": False, "max_out": 0, "ids": [], "refused_since_id": False,
                "refused_search_bi": False, "done_ids": set()}
        if init.get("long_preroll"):
            self._long_preroll(st, int(init["long_preroll"]))
        # a long-lived session: N request/response pairs before the seeded history starts (ids then need 2+ octets
        # around 128 and 256), executed through the same step() so that every oracle applies
        for i in range(init.get("preroll", 0)):
            self.step(st, {"op": "call", "who": "c", "m": "extended_request", "a": {"name": "1.1"}})
            mid = st.x["ids"][-1] if st.x["ids"] else 1
            self.step(st, {"op": "drain", "who": "c", "n": None})
            if i % 7 != 3:  # leave some operations in progress
                self.step(st, {"op": "inject", "to": "c", "msg": {"t": "ExtendedResponse", "id": mid, "controls": [], "name": None, "value": None,
                                                                   "result": {"code": 0, "matched_dn": "", "diag": ""}}})
                self.step(st, {"op": "deliver", "to": "c", "n": None})
        if init.get("preroll", 0):
            st.hit("long_session_preroll")
        return st

    def _long_preroll(self, st, n):
        """Tens of thousands of minimal operations, each answered at once, without the per-step bookkeeping of the world
        (ids are still checked: positive, strictly increasing, carried by the emitted bytes, response accepted).  The very
        first operation stays in progress for the whole session (a persistent search would)."""
        se = st.w.s["c"]
        real, model = se.real, se.model
        last = 0
        for i in range(n):
            try:
                mid = real.extended_request("1.1")
                out = bytes(real.data_to_send())
            except Exception as e:  # noqa: BLE001
                raise Violation(P, "long-session-refused", "request number %d of a long session failed: %s: %s" % (i + 1, type(e).__name__, e))
            if not isinstance(mid, int) or isinstance(mid, bool) or mid <= last:
                raise Violation(P, "id-not-increasing", "request number %d of a long session returned id %r after id %r" % (i + 1, mid, last))
            try:
                lt = rfc4511.light(out)
                okb = lt["id"] == mid
            except ber.Malformed:
                okb = False
            if not okb:
                raise Violation(P, "id-in-bytes-differs", "request number %d of a long session returned id %r but its bytes carry another" % (i + 1, mid))
            last = mid
            model.call_commit("extended_request", {"name": "1.1"}, True, ret=mid)
            st.x["ids"] = [mid]
            if i == 0:
                continue
            resp = rfc4511.enc_msg({"t": "ExtendedResponse", "id": mid, "controls": [], "name": None, "value": None,
                                    "result": {"code": 0, "matched_dn": "", "diag": ""}})
            try:
                got = real.receive(resp)
                okr = isinstance(got, list) and len(got) == 1
                why = "returned %d messages" % len(got) if isinstance(got, list) else "returned %r" % type(got).__name__
            except Exception as e:  # noqa: BLE001
                okr, why = False, "raised %s: %s" % (type(e).__name__, e)
            if not okr:
                raise Violation(P, "in-progress-id-refused/ExtendedResponse", "the response to request number %d (id %r) of a long session %s" % (
                    i + 1, mid, why))
            model._retire(mid)
            if len(model.retired) > 64:
                del model.retired[:-32]
        st.hit("very_long_session")

    def next_op(self, st, rng):
        w = st.w
        se = w.s["c"]
        model = se.model
        init = w.init
        g = Gen(rng, big=init["big"], bad_text=init.get("bad_text", 0.0))
        gb = Gen(rng, big=init["big"])  # the byzantine server's generator (known controls with odd values allowed)
        gb.odd_known = True
        gb.invalid_known = True
        x = rng.random()
        if se.inbox and x < 0.45:
            bk, scr = policy.buf_kind(rng)
            return {"op": "deliver", "to": "c", "n": policy.chunk_len(rng, len(se.inbox), init["chunk"]), "buf": bk, "scribble": scr}
        if x < 0.5:
            return {"op": "drain", "who": "c", "n": rng.choice([None, None, 0, 3])}
        want_resp = model.out and x < 0.78
        if model.st == "CL":
            want_resp = x < 0.7
        if want_resp:
            bad = rng.random() < init["bad_p"]
            if rng.random() < 0.5 * init["bad_p"]:
                # request-type message, unbind or notice of disconnection towards the client
                r = rng.random()
                if r < 0.5:
                    return {"op": "inject", "to": "c", "msg": policy.byz_request(gb, rng.choice([0, 1, model.last_id, model.last_id + 1]),
                                                                                rng.choice(["BindRequest", "SearchRequest", "ExtendedRequest"]))}
                if r < 0.7:
                    return {"op": "inject", "to": "c", "msg": {"t": "UnbindRequest", "id": rng.choice([0, 1]), "controls": []}}
                mid = policy.pick_sorted(rng, model.out) if model.out and rng.random() < 0.6 else 0
                return {"op": "inject", "to": "c", "msg": policy.byz_response(gb, mid, "ExtendedResponse", notice=True)}
            if rng.random() < 0.04:
                # an operation the library does not implement, with an id of any class
                cls = rng.choice(["search", "nonsearch", "completed", "next", "zero"])
                mid = policy.client_id_class_pick(rng, model, cls)
                st.hit("unimplemented_protocol_op_to_client")
                return {"op": "inject", "to": "c", "msg": policy.byz_raw_op(rng, mid if mid is not None else 0)}
            if init.get("preroll") and model.out and rng.random() < 0.25:
                mid = policy.client_id_class_pick(rng, model, "alias")
                kind = rng.choice(policy.RESPONSE_KINDS)
                return {"op": "inject", "to": "c", "msg": policy.byz_response(gb, mid, kind, None)}
            if bad or not model.out:
                kinds = policy.RESPONSE_KINDS
                k = (self.idx + w.events) % (len(kinds) * 5)
                kind = kinds[k % len(kinds)]
                cls = ("completed", "next", "zero", "large", "alias")[k // len(kinds)]
                mid = policy.client_id_class_pick(rng, model, cls)
                if mid is None:
                    mid = policy.client_id_class_pick(rng, model, "next")
            else:
                mid = policy.pick_sorted(rng, model.out)
                if rng.random() < 0.7:
                    kind = policy.matching_response_kind(rng, model, mid)
                else:
                    kind = rng.choice(policy.RESPONSE_KINDS)
            code = 14 if (kind == "BindResponse" and rng.random() < 0.3) else None
            op = {"op": "inject", "to": "c", "msg": policy.byz_response(gb, mid, kind, code)}
            if rng.random() < 0.25:
                op["dup"] = True  # the same response twice (duplicate final / entry twice)
            return op
        c = policy.client_call(g, model, illegal_p=init["illegal_p"], allow_unbind=0.015)
        if c is None:
            return None
        if rng.random() < 0.04:
            return {"op": "call", "who": "c", "m": c[0], "a": c[1], "via_copy": True}
        return {"op": "call", "who": "c", "m": c[0], "a": c[1]}

    # ------------------------------------------------------------------

    def step(self, st, op):
        w = st.w
        k = op["op"]
        se = w.s["c"]
        if k == "inject":
            ev = w.apply(op)
            if op.get("dup") and not ev.get("noop"):
                w.apply(op)
            st.label("inject")
            return
        if k == "drain":
            w.apply(op)
            st.label("drain")
            return
        if k == "call":
            pre = se.model.clone()
            twin = None
            if op.get("via_copy"):
                # an application that snapshots its session (copy.deepcopy) mid-conversation and goes on with the copy must
                # be handed the same id as the session itself would hand out next
                try:
                    from ..values import build_call

                    cp = w.clone("c")
                    args, kw = build_call(op["m"], op.get("a", {}), {})
                    if op["m"] in ("bind", "bind_simple", "bind_sasl") and op.get("a", {}).get("_version", 3) != getattr(cp, "version", 3):
                        cp.version = op["a"]["_version"]
                    twin = (True, getattr(cp, op["m"])(*args, **kw))
                except Exception:  # noqa: BLE001
                    twin = (False, None)
            ev = w.apply(op)
            if ev.get("noop") or ev.get("expect") is None:
                return
            m = op["m"]
            if twin is not None and m != "unbind":
                st.hit("call_on_copy_first")
                if twin != (ev["accepted"], ev["ret"]):
                    raise Violation(P, "id-differs-on-copy", "%s on a deep copy of the session: accepted=%s id=%r; on the session itself: "
                                    "accepted=%s id=%r (ids handed out so far %r)" % (m, twin[0], twin[1], ev["accepted"], ev["ret"],
                                                                                    st.x["ids"][-5:]))
            st.label("call:%s:%s" % (m, "acc" if ev["accepted"] else "ref"))
            st.x["cells"].add(("call", m, pre.st, ev["accepted"]))
            if ev["accepted"] and m != "unbind":
                ret = ev["ret"]
                if not isinstance(ret, int) or isinstance(ret, bool) or ret <= 0:
                    raise Violation(P, "id-not-positive", "%s returned %r" % (m, ret))
                if st.x["ids"] and ret <= max(st.x["ids"]):
                    raise Violation(P, "id-not-increasing", "%s returned id %r after ids %r" % (m, ret, st.x["ids"][-5:]))
                if st.x["refused_since_id"]:
                    st.hit("id_after_refused_call")
                st.x["refused_since_id"] = False
                st.x["ids"].append(ret)
                before, after = ev["pend_before"], ev["pend_after"]
                e = after[len(before):] if after[: len(before)] == before else None
                ok = False
                if e is not None:
                    units, rest, flag = ber.frame_units(e)
                    if len(units) == 1 and rest == len(e) and not flag:
                        try:
                            lt = rfc4511.light(e)
                            ok = lt["id"] == ret and lt["tag"] == _TAG[m]
                            got = (lt["id"], lt["tag"])
                        except ber.Malformed:
                            got = "unreadable"
                    else:
                        got = "%d PDUs" % len(units)
                else:
                    got = "stream rewritten"
                if not ok:
                    raise Violation(P, "id-in-bytes-differs", "%s returned id %s (protocolOp %s) but the emitted bytes carry %s" % (
                        m, ret, _TAG[m], got))
                st.x["max_out"] = max(st.x["max_out"], len(se.model.out))
                if len(se.model.out) >= 2:
                    st.hit("two_in_progress")
            elif not ev["accepted"]:
                st.x["refused_since_id"] = True
                if m == "search_request" and pre.st == "BI":
                    st.x["refused_search_bi"] = True
            self.diverge_unless(ev, "call")
            return
        if k != "deliver":
            return
        pre = se.model.clone()
        ev = w.apply(op)
        if ev.get("noop"):
            return
        st.label("deliver:%s" % ("ok" if ev["ok"] else "err"))
        lights = ev["lights"] or []
        # classify what was completed by this delivery (cells + reach), walking a model copy
        walk = pre.clone()
        offender = None
        for i, lt in enumerate(lights):
            cls = cid_class(walk, lt["id"])
            kind = lt["kind"]
            if pre.st != "CL":
                if kind in REQUEST_KINDS:
                    st.hit("notice_or_unbind_to_client" if kind == "UnbindRequest" else "request_to_client")
                elif lt.get("name") == NOTICE_OID:
                    st.hit("notice_or_unbind_to_client")
                else:
                    st.cell("%s/%s" % (kind, cls))
                    if cls == "completed":
                        st.x["bad_delivered"] = True
                        if lt["id"] in st.x["done_ids"]:
                            st.hit("response_after_done")
                        st.hit("dup_final")
                    elif cls in ("next", "zero", "large", "alias"):
                        st.x["bad_delivered"] = True
                    elif cls == "nonsearch" and kind in ("SearchResultEntry", "SearchResultReference"):
                        st.hit("entry_for_nonsearch")
                    if st.x["refused_search_bi"] and cls == "nonsearch" and kind == "BindResponse":
                        st.hit("refused_search_while_binding_then_response")
                    if cls == "search" and kind == "SearchResultDone":
                        st.x["done_ids"].add(lt["id"])
            v = walk._recv_one(lt)
            if v == "error":
                offender = (i, lt, cls)
                break
        st.x["cells"].add(("recv", tuple((lt["kind"], cid_class(pre, lt["id"])) for lt in lights[:3]), ev["ok"]))
        if pre.st == "CL":
            # input on a closed session: C08 owns "accepts no data"; here only keep model and run in step
            self.diverge_unless(ev, "delivery to closed client")
            return
        exp = ev["expect"]
        if not ev["ok"] and not ev["exc"]["proto"]:
            raise Violation(P, "wrong-exception", "receive raised %s (%s) instead of ProtocolError" % (ev["exc"]["type"], ev["exc"]["msg"]))
        if exp[0] == "error" and ev["ok"]:
            i, lt, cls = offender
            if lt["kind"] in REQUEST_KINDS:
                raise Violation(P, "request-accepted/%s" % lt["kind"], "client accepted a request-type message %s id %s" % (lt["kind"], lt["id"]))
            if lt.get("name") == NOTICE_OID:
                self.diverge_unless(ev, "notice of disconnection accepted")
            key = "not-retired/%s" % lt["kind"] if cls == "completed" else "unknown-id-accepted/%s/%s" % (lt["kind"], cls)
            raise Violation(P, key, "client accepted %s for id %s which is %s (in progress: %s)" % (
                lt["kind"], lt["id"], cls, sorted(pre.out)))
        if exp[0] == "ok" and not ev["ok"]:
            kinds = [(lt["kind"], cid_class(pre, lt["id"])) for lt in lights]
            first = lights[0] if lights else {"kind": "none", "id": None}
            key = "retired-early/%s" if cid_class(pre, first["id"]) == "search" else "in-progress-id-refused/%s"
            raise Violation(P, key % first["kind"], "client refused responses %s for ids in progress %s: %s" % (
                kinds, sorted(pre.out), ev["exc"]["msg"]))
        if exp[0] == "ok" and ev["ok"] and ev["well_typed"]:
            got = [[type(m).__name__, int(m.message_id)] for m in ev["msgs"]]
            want = [[lt["kind"], lt["id"]] for lt in lights]
            if got != want:
                raise Violation(P, "returned-differs", "receive returned %s for delivered %s" % (got, want))
        if not ev["ok"] and ev["st_after"] != "CLOSED":
            raise Violation(P, "refusal-not-closing", "ProtocolError raised but state is %s" % ev["st_after"])
        if not ev["ok"]:
            # "closes the session": on a copy, no request call may hand out an id any more
            st.hit("closed_then_request_probes")
            for m, args in (("bind_simple", ()), ("bind_sasl", ("EXTERNAL",)), ("search_request", ()), ("extended_request", ("1.2.3",))):
                cp = w.clone("c")
                try:
                    r = getattr(cp, m)(*args)
                except Exception:  # noqa: BLE001
                    continue
                raise Violation(P, "refusal-not-closing/%s" % m, "after the ProtocolError (%s) a copy of the client still accepts %s() -> id %r, "
                                "state %s" % (ev["exc"]["msg"], m, r, cp.state))
        self.diverge_unless(ev, "delivery")

    def nontrivial(self, st):
        return st.x["bad_delivered"] and st.x["max_out"] >= 2

    def distinct_key(self, st):
        return repr(sorted(st.x["cells"], key=repr))
