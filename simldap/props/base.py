"""Common scaffolding for property checks."""
from __future__ import annotations

from ..runner import h64
from ..world import Diverged, Violation, World

COMPONENTS_COMMON = {
    "real": ["sansldap.LDAPClient", "sansldap.LDAPServer", "sansldap.LDAPSession.receive/data_to_send",
             "all sansldap message/filter/control/credential classes", "sansldap.asn1 reader+writer"],
    "stub": ["byte pipes", "client/server applications (op policies)", "byzantine peers (own RFC 4511 encoder)",
             "fault injector", "reference session model", "independent BER framer / RFC 4511 decoder",
             "custom control/filter/credential types modelled on the documented examples"],
}


def bucket(n):
    if n == 0:
        return 0
    if n == 1:
        return 1
    if n <= 3:
        return 2
    if n <= 8:
        return 3
    return 4


class St:
    """Per-run mutable state shared by all property checks."""

    def __init__(self, world):
        self.w = world
        self.labels = []
        self.sigs = set()
        self.trigrams = set()
        self.reach = {}
        self.matrix = {}
        self.faults = {}
        self.flags = {}
        self.personality = "uniform"
        self.vtime = 0
        self.x = {}  # property-specific

    def hit(self, k, n=1):
        self.reach[k] = self.reach.get(k, 0) + n

    def cell(self, k, n=1):
        self.matrix[k] = self.matrix.get(k, 0) + n

    def fault(self, k, n=1):
        self.faults[k] = self.faults.get(k, 0) + n

    def label(self, lab):
        self.labels.append(lab)
        if len(self.labels) >= 3:
            self.trigrams.add(h64("|".join(self.labels[-3:])))
        w = self.w
        sig = [lab.split(":")[0]]
        for name in w.order:
            se = w.s[name]
            sig.append((se.model.st, bucket(len(se.model.out)), 1 if se.mbuf else 0, bucket(len(se.inbox))))
        self.sigs.add(h64(repr(sig)))


class PropBase:
    ID = "C00"
    LEVEL = "exploration"
    RULE = ""
    COMPONENTS = COMPONENTS_COMMON
    ASSUMPTIONS = []
    RUNS = {"quick": 2000, "thorough": 40000}
    STEPS = {"quick": 80, "thorough": 160}
    BATCH = 100
    REQUIRED_CELLS = ()
    REQUIRED_REACH = ()

    def __init__(self, tier="quick"):
        self.tier = tier
        self.idx = 0
        self.seed = 0

    # ---- sizing
    def runs(self, tier):
        return self.RUNS[tier]

    def max_steps(self, tier):
        return self.STEPS[tier]

    def batch(self, tier):
        return self.BATCH

    def task_timeout(self, tier):
        return 1500 if tier == "quick" else 7200

    def wall_cap(self, tier):
        return 1700 if tier == "quick" else 7800

    def begin_run(self, idx, seed):
        self.idx = idx
        self.seed = seed

    # ---- to implement
    def init_op(self, rng):
        raise NotImplementedError

    def make(self, init):
        return St(World(init))

    def make_empty(self):
        """A state object without sessions (used only for bookkeeping when set-up itself failed)."""
        st = St(World({"op": "init", "sessions": []}))
        st.x = {}
        return st

    def next_op(self, st, rng):
        raise NotImplementedError

    def step(self, st, op):
        raise NotImplementedError

    def finish(self, st):
        pass

    def nontrivial(self, st):
        return True

    def distinct_key(self, st):
        return repr(sorted(st.trigrams))

    def sample(self, st, ops):
        return None

    # ---- generic helpers
    def diverge_unless(self, ev, what=""):
        """The model and the implementation disagree on an event this property says nothing
        about: stop the run (another property's alarm)."""
        if not ev.get("sync", True) or not ev.get("state_sync", True):
            raise Diverged("%s op=%s who=%s m=%s expect=%s accepted=%s st=%s/%s" % (
                what, ev.get("op"), ev.get("who"), ev.get("m"), ev.get("expect"), ev.get("accepted", ev.get("ok")),
                ev.get("st_after"), ev.get("mst_after")))

    def digest(self, st):
        return st.w.digest()

    def summary(self, st):
        if not st.x:
            return {"events": 0, "nontrivial": False, "dkey": 0, "reach": {}, "matrix": {}, "faults": {}, "personality": "-",
                    "sigs": set(), "trigrams": set(), "vtime": 0, "discarded": 0}
        return {
            "events": st.w.events,
            "nontrivial": bool(self.nontrivial(st)),
            "dkey": h64(self.distinct_key(st)),
            "reach": st.reach,
            "matrix": st.matrix,
            "faults": st.faults,
            "personality": st.personality,
            "sigs": st.sigs,
            "trigrams": st.trigrams,
            "vtime": st.vtime,
            "discarded": st.flags.get("discarded", 0),
        }

    def new_agg(self):
        return {"runs": 0, "events": 0, "nontrivial": 0, "distinct": set(), "samples": [], "diverged": 0,
                "diverged_samples": [], "faults": {}, "reach": {}, "matrix": {}, "personalities": {}, "sigs": set(),
                "trigrams": set(), "viol_counts": {}, "vtime": 0, "discarded": 0}

    def fold(self, agg, r, idx, seed):
        s = r["stats"]
        agg["runs"] += 1
        agg["events"] += s["events"]
        if r["diverged"]:
            agg["diverged"] += 1
            if len(agg["diverged_samples"]) < 3:
                agg["diverged_samples"].append({"run_index": idx, "why": r["diverged"][:300]})
        if s["nontrivial"] and r["violation"] is None and not r["diverged"]:
            agg["nontrivial"] += 1
            agg["distinct"].add(s["dkey"])
            if len(agg["samples"]) < 2:
                agg["samples"].append({"run_index": idx, "run_seed": seed, "ops": _trim(r["ops"])})
        for k in ("reach", "matrix", "faults"):
            for kk, vv in s[k].items():
                agg[k][kk] = agg[k].get(kk, 0) + vv
        agg["personalities"][s["personality"]] = agg["personalities"].get(s["personality"], 0) + 1
        agg["sigs"] |= s["sigs"]
        agg["trigrams"] |= s["trigrams"]
        agg["vtime"] += s["vtime"]
        agg["discarded"] += s["discarded"]

    def merge(self, agg, a):
        for k in ("runs", "events", "nontrivial", "diverged", "vtime", "discarded"):
            agg[k] += a[k]
        for k in ("distinct", "sigs", "trigrams"):
            agg[k] |= a[k]
        for k in ("faults", "reach", "matrix", "personalities", "viol_counts"):
            for kk, vv in a[k].items():
                agg[k][kk] = agg[k].get(kk, 0) + vv
        for k in ("samples", "diverged_samples"):
            agg[k] = sorted(agg[k] + a[k], key=lambda x: x["run_index"])[:3]

    def warnings(self, agg, tier):
        out = []
        for c in self.REQUIRED_CELLS:
            if agg["matrix"].get(c, 0) == 0:
                out.append("UNREACHED cell %s" % c)
        for c in self.REQUIRED_REACH:
            if agg["reach"].get(c, 0) == 0:
                out.append("UNREACHED probe %s" % c)
        if agg["diverged"]:
            out.append("%d runs stopped early because implementation and reference model disagree on something "
                       "outside %s (see diverged_samples in evidence)" % (agg["diverged"], self.ID))
        return out


def _trim(ops, n=40):
    out = []
    for op in ops[:n]:
        o = {}
        for k, v in op.items():
            if isinstance(v, str) and len(v) > 160:
                v = v[:160] + "...(%d chars)" % len(v)
            o[k] = v
        out.append(o)
    if len(ops) > n:
        out.append({"op": "...", "more": len(ops) - n})
    return out


__all__ = ["PropBase", "St", "Violation", "Diverged", "bucket"]
