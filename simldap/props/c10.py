"""C10 - rejected calls have no wire effect; servers answer only open requests (DESIGN 5.6)."""
from __future__ import annotations

from .. import ber, policy, rfc4511
from ..values import Gen, expected_message
from ..world import Violation, World, exc_info, state_name
from .base import PropBase, St

P = "C10"

CLIENT_M = ("bind", "bind_simple", "bind_sasl", "search_request", "extended_request")
FINAL = ("bind_response", "extended_response", "search_result_done")
NONFINAL = ("search_result_entry", "search_result_reference")
ID_CLASSES = ("outstanding", "retired", "never", "zero")
STATES = ("B0", "BI", "OP", "CL")


def id_class(model, mid):
    if mid in model.out:
        return "outstanding"
    if mid == 0:
        return "zero"
    if mid in model.retired:
        return "retired"
    return "never"


def w_copy_pending(sess):
    """Pending output of a session object, read from a deep copy."""
    import copy
    return copy.deepcopy(sess).data_to_send()


class C10(PropBase):
    ID = P
    RULE = ("one run = one seeded history on a real server fed by a byzantine client (own encoder), whose application calls "
            "every response method with ids from {outstanding, retired, never received, 0} in every state (smaller symmetric "
            "client part: bind with operations outstanding, calls while BINDING/CLOSED); non-trivial = at least one refused "
            "call on a non-closed session with non-empty pending output, or a repeated final response; distinct = the set of "
            "(method, id class, model state, outcome) cells the run visited")
    ASSUMPTIONS = ["deep copies of a session behave like the session (pending bytes are read from a copy before and after "
                   "every call)", "kind-mismatched responses to an outstanding id may be accepted or refused (not stated)"]
    RUNS = {"quick": 24000, "thorough": 300000}
    STEPS = {"quick": 60, "thorough": 120}
    REQUIRED_CELLS = tuple("%s/%s/%s" % (m, c, s) for m in FINAL + NONFINAL for c in ID_CLASSES for s in ("BI", "OP", "CL")
                           if not (s == "CL" and c == "outstanding")) + \
        tuple("%s/%s/B0" % (m, c) for m in FINAL + NONFINAL for c in ("never", "zero"))
    REQUIRED_REACH = ("refused_with_pending", "repeat_final", "client_bind_while_busy", "client_call_while_binding",
                      "client_call_after_close", "done_for_nonsearch_id", "entry_then_probe", "refused_in_BI_keeps_state",
                      "send_failed_while_encoding", "giant_id_refused_twice", "giant_id_never_received")

    def init_op(self, rng):
        role = "s" if rng.random() < 0.8 else "c"
        return {"op": "init", "sessions": [{"name": "x", "role": role}], "observe_pending": True, "follow": True, "invalid_units": True,
                "lazy_drain": rng.random() < 0.7, "first_id": rng.choice([1, 1, 1, 120, 250, 32760, 65530, 2 ** 31 - 40, 2 ** 32 - 5, 1, 1, 1, 120, 250, 32760, 65530, 2 ** 31 - 40, 2 ** 32 - 5, -2 ** 31 + 3, -9000000, -40]),
                "huge": rng.choice([0.0] * 7 + [0.03]), "big": rng.choice([0.03, 0.15]), "bad_text": rng.choice([0.0, 0.0, 0.04]), "style": policy.wire_style(rng)}

    def make(self, init):
        st = St(World(init))
        st.x = {"nontrivial": False, "cells": set(), "next_req": init.get("first_id", 1), "last_final": None}
        return st

    # ------------------------------------------------------------------ policy

    def next_op(self, st, rng):
        w = st.w
        se = w.s["x"]
        model = se.model
        g = Gen(rng, big=w.init["big"], bad_text=w.init.get("bad_text", 0.0), huge=w.init.get("huge", 0.0))
        gb = Gen(rng, big=w.init["big"])  # byzantine peer (own encoder): text must be encodable here
        gb.odd_known = True
        gb.invalid_known = True
        g.versions = gb.versions = True
        x = rng.random()
        if se.inbox and x < 0.3:
            bk, scr = policy.buf_kind(rng)
            return {"op": "deliver", "to": "x", "n": policy.chunk_len(rng, len(se.inbox), "mixed"), "buf": bk, "scribble": scr}
        if x < 0.38 and not (w.init["lazy_drain"] and rng.random() < 0.7):
            n, _ = policy.drain_amount(rng, 10)
            return {"op": "drain", "who": "x", "n": n}
        if se.role == "s" and model.st != "CL" and rng.random() < 0.012:
            # message ids beyond any machine word (the id space of the statement is "every candidate message ID"); kept out of
            # the op itself as a number so that replay files stay small: only the octet count and the fill are recorded
            return {"op": "giant_id", "octets": rng.choice([600, 1794, 1795, 1800, 2500, 6000]), "fill": rng.choice([0, 0, 1, 255]),
                    "kind": rng.choice(["ExtendedRequest", "SearchRequest"]), "received": rng.random() < 0.7}
        if se.role == "s":
            need_req = (not model.out and model.st != "CL") or x < 0.55
            if model.st == "B0" and rng.random() < 0.5:
                need_req = False  # exercise calls on a session that has seen no traffic yet
            if need_req and model.st != "CL":
                mid = st.x["next_req"]
                st.x["next_req"] += rng.choice([1, 1, 1, 2])
                if model.out and rng.random() < 0.07:
                    # a client that reuses the id of a request it has not had an answer to yet: still ONE open request
                    mid = policy.pick_sorted(rng, model.out)
                kind = None
                if model.out:
                    kind = rng.choice(["SearchRequest", "ExtendedRequest", "SearchRequest", "ExtendedRequest", "BindRequest"])
                elif rng.random() < 0.45:
                    kind = "BindRequest"
                if rng.random() < 0.02:
                    kind = "UnbindRequest"
                if rng.random() < 0.03:
                    # an operation the library does not implement (abandon, modify, ...): its id must never become answerable
                    return {"op": "inject", "to": "x", "msg": policy.byz_raw_op(rng, mid)}
                return {"op": "inject", "to": "x", "msg": policy.byz_request(gb, mid, kind)}
            # repeat the last accepted final response now and then
            lf = st.x["last_final"]
            if lf is not None and rng.random() < 0.3:
                st.x["last_final"] = None
                return {"op": "call", "who": "x", "m": lf[0], "a": lf[1], "repeat": True}
            # quota-steered cell: method x id class by run index
            focus = None
            if rng.random() < 0.5:
                ms = FINAL + NONFINAL
                k = (self.idx + w.events) % (len(ms) * len(ID_CLASSES))
                focus = (ms[k % len(ms)], ID_CLASSES[k // len(ms)])
            if rng.random() < 0.35:
                c = policy.server_legal_call(g, model, p_term=0.04)
                if c is not None:
                    return {"op": "call", "who": "x", "m": c[0], "a": c[1]}
            m, a, _cls = policy.server_any_call(g, model, focus)
            return {"op": "call", "who": "x", "m": m, "a": a}
        # client part
        if model.out and x < 0.6:
            mid = policy.pick_sorted(rng, model.out)
            kind = policy.matching_response_kind(rng, model, mid)
            code = 14 if (kind == "BindResponse" and rng.random() < 0.3) else None
            return {"op": "inject", "to": "x", "msg": policy.byz_response(gb, mid, kind, code)}
        c = policy.client_call(g, model, illegal_p=0.5, allow_unbind=0.06)
        if c is None:
            return None
        return {"op": "call", "who": "x", "m": c[0], "a": c[1]}

    # ------------------------------------------------------------------ step + oracle

    def _giant_id(self, st, op):
        """On a copy of the server: a request whose messageID has thousands of octets is answered and then answered again;
        or a response is attempted for such an id that was never received.  The refusal must be the library's own error and
        leave the stream alone, whatever the id looks like."""
        w = st.w
        cp = w.clone("x")
        if state_name(cp) == "CLOSED":
            return
        content = b"\x01" + bytes([op["fill"]]) * (op["octets"] - 1)
        kind = op["kind"]
        m = "extended_response" if kind == "ExtendedRequest" else "search_result_done"
        what = "an id of %d content octets" % len(content)
        if op["received"]:
            if kind == "ExtendedRequest":
                body = ber.tlv(ber.APPLICATION, True, 23, ber.octets(b"1.2.3.4.5", ber.CONTEXT, 0))
            else:
                body = ber.tlv(ber.APPLICATION, True, 3, ber.octets(b"") + ber.enumerated(0) + ber.enumerated(0) + ber.integer(0)
                               + ber.integer(0) + ber.boolean(False) + ber.octets(b"objectClass", ber.CONTEXT, 7) + ber.sequence([]))
            pdu = ber.sequence([ber.tlv(ber.UNIVERSAL, False, 2, content), body])
            try:
                got = cp.receive(pdu)
            except Exception:  # noqa: BLE001 - refusing such an id is fine, and what receive may raise is C05's statement
                st.hit("giant_id_not_accepted")
                return
            if len(got) != 1:
                return
            mid = got[0].message_id
            try:
                getattr(cp, m)(mid)
            except Exception:  # noqa: BLE001 - e.g. refused while BINDING
                return
        else:
            mid = int.from_bytes(content, "big")
        before = bytes(w_copy_pending(cp))
        try:
            getattr(cp, m)(mid)
        except Exception as e:  # noqa: BLE001
            info = exc_info(e)
            after = bytes(w_copy_pending(cp))
            if not info["ldap"]:
                raise Violation(P, "wrong-exception/%s" % m, "refused %s for %s (%s) raised %s (%s), not an LDAPError" % (
                    m, what, "already answered" if op["received"] else "never received", info["type"], info["msg"][:120]))
            if after != before:
                raise Violation(P, "bytes-after-refusal/%s" % m, "refused %s for %s changed the outgoing stream" % (m, what))
            st.hit("giant_id_refused_twice" if op["received"] else "giant_id_never_received")
            return
        raise Violation(P, "response-to-non-outstanding/%s/%s" % (m, "retired" if op["received"] else "never"),
                        "server accepted %s for %s which is not outstanding" % (m, what))

    def step(self, st, op):
        w = st.w
        k = op["op"]
        if k == "giant_id":
            if "x" in w.s and w.s["x"].role == "s":
                self._giant_id(st, op)
            return
        if k != "call":
            closed_before = k == "deliver" and op.get("to") in w.s and w.s[op["to"]].model.st == "CL"
            ev = w.apply(op)
            if ev.get("noop"):
                return
            st.label("%s:%s" % (k, "ok" if ev.get("ok", True) else "err"))
            if k == "deliver":
                if ev.get("followed") or ev.get("followed_error"):
                    st.hit("mishandled_delivery_followed")
                elif closed_before:
                    # input on a session that the documented state machine has closed: whether it is refused is C08's
                    # statement; C10 goes on, because whatever such a session emits afterwards answers no open request
                    if ev["ok"]:
                        st.hit("closed_session_accepted_input")
                else:
                    self.diverge_unless(ev, "delivery")
            return
        se = w.s.get(op.get("who"))
        if se is None:
            return
        m, a = op["m"], op.get("a", {})
        pre = se.model.clone()
        ev = w.apply(op)
        if ev.get("noop") or ev.get("expect") is None:
            return
        acc = ev["accepted"]
        st.label("call:%s:%s" % (m, "acc" if acc else "ref"))
        before, after = ev["pend_before"], ev["pend_after"]
        if se.role == "s" and m != "unbind":
            cls = id_class(pre, a["id"])
            cell = "%s/%s/%s" % (m, cls, pre.st)
            st.cell(cell)
            st.x["cells"].add((cell, acc))
        else:
            cls = "n/a"
            st.x["cells"].add((m, pre.st, acc))
        if not acc:
            # ---- refused: nothing on the wire, library's own error type
            if ev.get("arg_error"):
                st.hit("send_failed_while_encoding")  # an argument that cannot be encoded: only the stream is judged
            elif not ev["exc"]["ldap"]:
                raise Violation(P, "wrong-exception/%s" % m, "refused %s raised %s (%s), not an LDAPError; state %s, id class %s" % (
                    m, ev["exc"]["type"], ev["exc"]["msg"], pre.st, cls))
            if after != before:
                raise Violation(P, "bytes-after-refusal/%s" % m, "refused %s (state %s, id class %s) changed the outgoing stream: "
                                "%d -> %d pending bytes" % (m, pre.st, cls, len(before), len(after)))
            if before and pre.st != "CL":
                st.x["nontrivial"] = True
                st.hit("refused_with_pending")
            if op.get("repeat"):
                st.hit("repeat_final")
                st.x["nontrivial"] = True
            if se.role == "c":
                if pre.st == "BI":
                    st.hit("client_call_while_binding")
                elif pre.st == "CL":
                    st.hit("client_call_after_close")
                elif m in ("bind", "bind_simple", "bind_sasl") and pre.out:
                    st.hit("client_bind_while_busy")
            elif pre.st == "BI":
                if ev["st_after"] != "BINDING":
                    # a refused call must not have any effect; the state change is C08's statement as well, but
                    # "refused ... leaves" is only about the stream here -> leave it to C08 (diverge below)
                    pass
                else:
                    st.hit("refused_in_BI_keeps_state")
        else:
            # ---- accepted: exactly one more PDU, carrying the id passed / returned
            if se.role == "s" and m != "unbind" and cls != "outstanding":
                raise Violation(P, "response-to-non-outstanding/%s/%s" % (m, cls), "server accepted %s for id %s which is %s "
                                "(state %s)" % (m, a["id"], cls, pre.st))
            if after[: len(before)] != before:
                raise Violation(P, "accepted-call-rewrote-stream/%s" % m, "pending bytes before the call are not a prefix of the "
                                "pending bytes after it")
            e = after[len(before):]
            units, rest, flag = ber.frame_units(e)
            if len(units) != 1 or rest != len(e) or flag:
                raise Violation(P, "accepted-without-pdu/%s" % m, "accepted %s appended %d bytes = %d complete PDUs" % (
                    m, len(e), len(units)))
            want = 0 if m == "unbind" else (ev["ret"] if se.role == "c" else a["id"])
            try:
                lt = rfc4511.light(e)
            except ber.Malformed as x:
                raise Violation(P, "accepted-without-pdu/%s" % m, "appended PDU unreadable: %s" % x)
            if lt["id"] != want:
                raise Violation(P, "accepted-wrong-id/%s" % m, "accepted %s for id %s emitted a PDU with id %s" % (m, want, lt["id"]))
            # what went out must BE the response / request the call described (a half-encoded message is no answer to anything)
            try:
                got = rfc4511.wire_norm(rfc4511.strict_decode(e))
                want_msg = rfc4511.wire_norm(expected_message(m, a, want))
                if got != want_msg:
                    diff = [k2 for k2 in sorted(set(got) | set(want_msg)) if got.get(k2) != want_msg.get(k2)]
                    raise Violation(P, "accepted-wrong-message/%s" % m, "accepted %s emitted a PDU that decodes to another message than the "
                                    "call described (fields %s)" % (m, diff))
            except ber.Malformed as x2:
                raise Violation(P, "accepted-wrong-message/%s" % m, "accepted %s emitted a PDU the reference decoder cannot read: %s" % (m, x2))
            if se.role == "s" and m != "unbind" and ev["st_after"] != "CLOSED":
                live = w.probe_in_progress(op["who"], a["id"], pre.kinds.get(a["id"]))
                if m in FINAL and live:
                    raise Violation(P, "final-not-retired/%s" % m, "after accepted %s(%s) a second response to the same id is "
                                    "still accepted (probe on a copy)" % (m, a["id"]))
                if m in NONFINAL:
                    st.hit("entry_then_probe")
                    if live is False:
                        raise Violation(P, "nonfinal-retired/%s" % m, "accepted %s(%s) retired the request: a further response "
                                        "to it is refused (probe on a copy)" % (m, a["id"]))
                if m in FINAL:
                    st.x["last_final"] = (m, a)
                if m == "search_result_done" and pre.kinds.get(a["id"]) != "SearchRequest":
                    st.hit("done_for_nonsearch_id")
        if not st.reach.get("mishandled_delivery_followed") and pre.st != "CL":
            if ev.get("sync", True) and not ev.get("state_sync", True) and se.model.st == "CL":
                # the call did what was expected on the wire but the session does not report the state the documented machine
                # is in now (C08's statement).  C10 goes on with the documented state: after a termination nothing is
                # outstanding any more, so whatever the session still lets through answers no open request
                st.hit("state_mismatch_followed")
            else:
                self.diverge_unless(ev, "call")

    def nontrivial(self, st):
        return st.x["nontrivial"]

    def distinct_key(self, st):
        return repr(sorted(st.x["cells"]))
