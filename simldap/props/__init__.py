"""Property checks.  load(<id>, tier) returns the check object."""
import importlib


def load(prop_id, tier="quick"):
    mod = importlib.import_module("simldap.props." + prop_id.lower())
    return getattr(mod, prop_id.upper())(tier)


CLAIMED = ["C02", "C05", "C06", "C08", "C09", "C10", "C11", "C12", "C19"]
