"""C11 - a client and a server session interoperate under any interleaving (DESIGN 5.7).

Real LDAPClient + real LDAPServer + two simulated in-order byte pipes + two *legal*
applications.  Three scheduler personalities (discrete-event with virtual time, uniform,
adversarial).  Oracle: exactly-once / in-order / equal-value delivery, only designed
terminations raise, agreement of state and in-progress operations at every quiescence.
"""
from __future__ import annotations

import heapq

from .. import policy
from ..rfc4511 import NOTICE_OID
from ..values import Gen, canon_msg, expected_message, norm
from ..world import Diverged, Violation, World
from .base import PropBase, St

P = "C11"

PEER = {"c": "s", "s": "c"}


class C11(PropBase):
    ID = P
    RULE = ("one run = one seeded joint history of legal client calls, legal server calls (responses of the matching kind, in any "
            "order, at any later time), data_to_send(amount) and chunked deliveries in both directions under one of three "
            "scheduler personalities, with a forced quiescence every K events; non-trivial = at least one delivery that ended mid-PDU "
            "between two application calls, at least two requests in flight at once and at least one response sent while a later request "
            "was still in the pipe; distinct = set of event-kind trigrams + set of joint model states visited")
    ASSUMPTIONS = ["applications only make calls the reference model says are accepted (premise of C11); a refused model-legal call "
                   "ends the run as 'premise broken' (that is C08's alarm)",
                   "messages sent towards a peer that closed itself (its own unbind / notice of disconnection) need not arrive",
                   "custom control/filter/credential types are registered on both sessions or not used"]
    RUNS = {"quick": 3200, "thorough": 60000}
    STEPS = {"quick": 110, "thorough": 260}
    REQUIRED_REACH = ("midpdu_between_calls", "two_in_flight", "response_while_request_in_pipe", "quiescence_checked",
                      "in_progress_probe_ids", "sasl_multistep_completed", "bind_after_search_done", "terminated_by_unbind",
                      "terminated_by_notice", "custom_types_on_wire", "odd_integers_on_wire", "pdu_over_127", "pdu_over_255",
                      "entries_interleaved_two_searches", "empty_vs_absent_optional", "partial_drain", "refused_attempt_mid_conversation",
                      "idle_probe", "late_registration", "send_failed_while_encoding", "deep_pipeline")

    def init_op(self, rng):
        customs = [t for t in ("CustomAuth", "CustomControl", "CustomFilter") if rng.random() < 0.35]
        customs += rng.choice([[], [], [], ["EdgeFilter31", "EdgeAuth31"], ["EdgeFilter30", "EdgeAuth32"], ["EdgeFilter127", "EdgeAuth128"],
                               ["EdgeFilter128", "EdgeAuth127"], ["EdgeFilter32", "EdgeAuth30"]])
        late = []
        if customs and rng.random() < 0.5:
            # some of the custom types are registered (on both sides) only in the middle of the conversation
            late = [t for t in customs if rng.random() < 0.6]
            customs = [t for t in customs if t not in late]
        pers = ("des", "uniform", "adversarial")[self.idx % 3]
        return {"op": "init", "real_stream": True,
                "sessions": [{"name": "c", "role": "c", "peer": "s", "register": customs},
                             {"name": "s", "role": "s", "peer": "c", "register": customs}],
                "customs": customs, "late_customs": late, "personality": pers, "odd_ints": rng.random() < 0.3,
                "bad_text": rng.choice([0.0, 0.0, 0.03]), "debug_logging": rng.random() < 0.25,
                "big": rng.choice([0.03, 0.1, 0.3]), "huge": rng.choice([0.0, 0.0, 0.0, 0.01]), "mega": rng.choice([0.0, 0.3]),
                "max_out": rng.choice([1, 2, 4, 8]), "term_p": rng.choice([0.0, 0.0, 0.01, 0.03]),
                "attempt_p": rng.choice([0.0, 0.05, 0.15]),
                "pipeline": rng.choice([0] * 48 + [100, 101]), "age": rng.choice([0] * 9 + [255, 300]),
                "quiesce_every": rng.choice([15, 30, 60, 1000]), "starve": rng.choice(["c", "s"]),
                "chunk": rng.choice(["mixed", "mixed", "byte", "whole"])}

    def make(self, init):
        st = St(World(init))
        st.personality = init.get("personality", "uniform")
        st.x = {"sent": {"c": [], "s": []}, "term_sent": {"c": None, "s": None}, "since_q": 0,
                "midpdu": False, "two": False, "resp_while_req": False, "joint": set(),
                "heap": None, "arrivals": {"c": [], "s": []}, "last_was_mid": {"c": False, "s": False},
                "ids": [], "entry_last": None, "delivered": {"c": 0, "s": 0}}
        if init.get("age"):
            try:
                st.w.fast_preroll("c", "s", int(init["age"]))
                st.hit("aged_pair")
            except Diverged:
                st.x["aged_failed"] = True
        # a deep pipeline: N requests sent back to back before anything is answered (pending-operation limits, id growth)
        for i in range(init.get("pipeline", 0)):
            self._call(st, {"op": "call", "who": "c", "m": "search_request" if i % 3 else "extended_request",
                            "a": {} if i % 3 else {"name": "1.3.6.1.4.1.4203.1.11.3"}})
        if init.get("pipeline", 0):
            self._drain(st, {"op": "drain", "who": "c", "n": None})
            self._deliver(st, {"op": "deliver", "to": "s", "n": None})
            st.hit("deep_pipeline")
        return st

    # ------------------------------------------------------------------ policy

    def _gen(self, st, rng):
        init = st.w.init
        g = Gen(rng, big=init["big"], huge=init["huge"], odd_ints=init["odd_ints"],
                customs=list(init["customs"]) + list(st.x.get("registered_late", [])), bad_text=init.get("bad_text", 0.0))
        g.mega = init.get("mega", 0.0)
        g.versions = True
        return g

    def _app_op(self, st, rng, who):
        w = st.w
        init = w.init
        g = self._gen(st, rng)
        se = w.s[who]
        todo = [t for t in init.get("late_customs", []) if t not in st.x.get("registered_late", [])]
        if todo and rng.random() < 0.06:
            return {"op": "register", "type": rng.choice(todo)}
        attempt = init.get("attempt_p", 0.0)
        if who == "c":
            cc = policy.client_call(g, se.model, illegal_p=attempt, allow_unbind=init["term_p"], max_out=init["max_out"])
            if cc is None:
                return None
            return {"op": "call", "who": "c", "m": cc[0], "a": cc[1]}
        if attempt and rng.random() < attempt and se.model.st != "CL":
            # an attempt the session must refuse (wrong id / wrong state); it has no effect on the conversation
            m, a, _cls = policy.server_any_call(g, se.model, p_unbind=0.0)
            if se.model.call_expect(m, a) == "refuse":
                return {"op": "call", "who": "s", "m": m, "a": a}
        sc = policy.server_legal_call(g, se.model, p_term=init["term_p"])
        if sc is None:
            return None
        return {"op": "call", "who": "s", "m": sc[0], "a": sc[1]}

    def _drain_op(self, st, rng, who, style):
        w = st.w
        pend = len(w.pending(who))
        if style == "byte":
            n = 1
        elif style == "whole":
            n = None
        else:
            n, _ = policy.drain_amount(rng, pend)
        return {"op": "drain", "who": who, "n": n}

    def _deliver_op(self, st, rng, to, style, limit=None):
        w = st.w
        avail = len(w.s[to].inbox)
        if limit is not None:
            avail = min(avail, limit)
        n = policy.chunk_len(rng, avail, style)
        bk, scr = policy.buf_kind(rng)
        return {"op": "deliver", "to": to, "n": n, "buf": bk, "scribble": scr}

    def next_op(self, st, rng):
        w = st.w
        init = w.init
        if st.x["since_q"] >= init["quiesce_every"]:
            return {"op": "quiesce"}
        pers = init["personality"]
        if pers == "des":
            return self._next_des(st, rng)
        chunk = init["chunk"]
        for _ in range(8):
            x = rng.random()
            if pers == "adversarial":
                starve = init["starve"]
                # starve deliveries towards one side, byte-sized transport, pile up requests
                if x < 0.35:
                    op = self._app_op(st, rng, "c" if rng.random() < 0.6 else "s")
                elif x < 0.6:
                    op = self._drain_op(st, rng, rng.choice(["c", "s"]), rng.choice(["byte", "mixed", "mixed"]))
                else:
                    to = PEER[starve] if rng.random() < 0.85 else starve
                    op = self._deliver_op(st, rng, to, "byte" if rng.random() < 0.5 else "mixed") if w.s[to].inbox else None
            else:
                if x < 0.3:
                    op = self._app_op(st, rng, rng.choice(["c", "s"]))
                elif x < 0.55:
                    op = self._drain_op(st, rng, rng.choice(["c", "s"]), "mixed")
                else:
                    tos = [n for n in ("c", "s") if w.s[n].inbox]
                    op = self._deliver_op(st, rng, rng.choice(tos), chunk) if tos else None
            if op is not None:
                return op
        return {"op": "quiesce"}

    def _next_des(self, st, rng):
        """Discrete-event personality: actors wake at virtual times; drained segments become
        deliverable after a latency; the clock jumps to the next event."""
        w = st.w
        x = st.x
        if x["heap"] is None:
            x["heap"] = []
            x["seq"] = 0
            for actor in ("app:c", "app:s", "drain:c", "drain:s", "net:c", "net:s"):
                x["seq"] += 1
                heapq.heappush(x["heap"], (rng.randint(0, 50), x["seq"], actor))
        for _ in range(12):
            t, _s, actor = heapq.heappop(x["heap"])
            st.vtime = max(st.vtime, t)
            kind, who = actor.split(":")
            x["seq"] += 1
            delay = {"app": rng.choice([5, 20, 80, 400]), "drain": rng.choice([1, 10, 50]), "net": rng.choice([1, 5, 30])}[kind]
            heapq.heappush(x["heap"], (t + delay, x["seq"], actor))
            if kind == "app":
                op = self._app_op(st, rng, who)
                if op is not None:
                    return op
            elif kind == "drain":
                if w.pending(who):
                    op = self._drain_op(st, rng, who, rng.choice(["whole", "mixed"]))
                    op["lat"] = rng.choice([1, 10, 100, 1000])
                    op["t"] = t
                    return op
            else:
                arr = x["arrivals"][who]
                ready = sum(n for (ta, n) in arr if ta <= t) - x["delivered"][who]
                ready = max(0, min(ready, len(w.s[who].inbox)))
                if ready > 0:
                    op = self._deliver_op(st, rng, who, "mixed", limit=ready)
                    op["t"] = t
                    return op
        return {"op": "quiesce"}

    # ------------------------------------------------------------------ step + oracle

    def step(self, st, op):
        k = op["op"]
        if k == "call":
            self._call(st, op)
        elif k == "drain":
            self._drain(st, op)
        elif k == "deliver":
            self._deliver(st, op)
        elif k == "quiesce":
            self._quiesce(st)
        elif k == "register":
            # both applications register the custom type now (after traffic has already been exchanged)
            from .. import customtypes as ct

            typ = op.get("type")
            if typ in ct.BY_NAME and typ not in st.x.setdefault("registered_late", []) and typ not in st.w.init["customs"]:
                for who in ("c", "s"):
                    ev = st.w.apply({"op": "call", "who": who, "m": ct.REGISTER_METHOD[typ], "a": {"type": typ}})
                    if not ev.get("accepted"):
                        raise Violation(P, "registration-refused/%s" % typ, "%s on the %s raised %s" % (ct.REGISTER_METHOD[typ], who, ev.get("exc")))
                st.x["registered_late"].append(typ)
                st.hit("late_registration")
                st.label("register")

    def _joint(self, st):
        w = st.w
        st.x["joint"].add((w.s["c"].model.st, w.s["s"].model.st, min(len(w.s["c"].model.out), 3), min(len(w.s["s"].model.out), 3)))

    def _call(self, st, op):
        w = st.w
        who = op.get("who")
        se = w.s.get(who)
        if se is None:
            return
        m, a = op["m"], op.get("a", {})
        pre = se.model.clone()
        expect = se.model.call_expect(m, a) if (who == "c" or m == "unbind" or isinstance(a.get("id"), int)) else None
        if expect == "refuse" and se.model.st != "CL":
            # an attempted call that the session refuses: "each application only makes calls its session accepts" -
            # the refused attempt must leave the conversation untouched
            ev = w.apply(op)
            if ev.get("noop"):
                return
            st.x["since_q"] += 1
            st.label("attempt:%s:%s" % (who, m))
            st.hit("refused_attempt_mid_conversation")
            if ev["accepted"] or not ev["state_sync"]:
                self._bail(st, "attempted %s.%s: accepted=%s state %s (C08/C10's statement)" % (who, m, ev["accepted"], ev["st_after"]))
            return
        if expect != "accept":
            return  # outside the premise (kind-mismatched response, or a shrunk op list): not executed
        if m in ("search_result_entry", "search_result_reference", "search_result_done") and pre.kinds.get(a.get("id")) != "SearchRequest":
            return
        ev = w.apply(op)
        if ev.get("noop"):
            return
        st.x["since_q"] += 1
        st.label("call:%s:%s" % (who, m))
        if ev.get("arg_error"):
            st.hit("send_failed_while_encoding")  # an argument that cannot be encoded: the attempt must leave no trace
            return
        if not ev["accepted"]:
            self._bail(st, "premise broken: model-legal %s.%s refused: %s" % (who, m, ev["exc"]["msg"]))
            return
        if not ev["state_sync"]:
            self._bail(st, "state after %s.%s is %s, model %s" % (who, m, ev["st_after"], ev["mst_after"]))
        mid = ev["ret"] if who == "c" else a.get("id")
        exp = norm(expected_message(m, a, mid if m != "unbind" else 0))
        term = m == "unbind" or (m == "extended_response" and a.get("name") == NOTICE_OID)
        st.x["sent"][who].append(exp)
        if term:
            st.x["term_sent"][who] = len(st.x["sent"][who]) - 1
            st.hit("terminated_by_unbind" if m == "unbind" else "terminated_by_notice")
        if who == "c" and m != "unbind":
            st.x["ids"].append(mid)
            if len(se.model.out) >= 2:
                st.x["two"] = True
                st.hit("two_in_flight")
            if m in ("bind", "bind_simple", "bind_sasl") and any(k2 == "SearchRequest" for k2 in pre.kinds.values()):
                st.hit("bind_after_search_done")
        if who == "s":
            if w.s["s"].inbox:
                st.x["resp_while_req"] = True
                st.hit("response_while_request_in_pipe")
            if m == "search_result_entry":
                if st.x["entry_last"] is not None and st.x["entry_last"] != mid and st.x["entry_last"] in se.model.out:
                    st.hit("entries_interleaved_two_searches")
                st.x["entry_last"] = mid
        self._probes_values(st, m, a)
        for n in ("c", "s"):
            if st.x["last_was_mid"][n]:
                st.x["midpdu"] = True
                st.hit("midpdu_between_calls")
                st.x["last_was_mid"][n] = False
        self._joint(st)

    def _probes_values(self, st, m, a):
        s = repr(a)
        if "Custom" in s:
            st.hit("custom_types_on_wire")
        for key in ("size_limit", "time_limit"):
            v = a.get(key)
            if isinstance(v, int) and (v < 0 or v > 2147483647):
                st.hit("odd_integers_on_wire")
        for key in ("value", "sasl_creds", "cred"):
            if key in a and a[key] == "":
                st.hit("empty_vs_absent_optional")

    def _drain(self, st, op):
        w = st.w
        who = op.get("who")
        if who not in w.s:
            return
        n = op.get("n")
        if isinstance(n, int) and n < 0:
            return
        pend = len(w.pending(who))
        ev = w.apply(op)
        st.x["since_q"] += 1
        st.label("drain:%s" % who)
        if ev["exc"] is not None or not isinstance(ev["data"], bytes):
            raise Diverged("data_to_send misbehaved (C12's statement): %s" % (ev["exc"],))
        d = ev["data"]
        if 0 < len(d) < pend:
            st.hit("partial_drain")
        if len(d) > 127:
            st.hit("pdu_over_127")
        if len(d) > 255:
            st.hit("pdu_over_255")
        if d:
            arr = st.x["arrivals"][PEER[who]]
            ta = op.get("t", 0) + op.get("lat", 0) if "t" in op else 0
            if arr:
                ta = max(ta, arr[-1][0])  # in-order pipe: never overtake the previous segment
            arr.append((ta, len(d)))

    def _deliver(self, st, op):
        w = st.w
        to = op.get("to")
        se = w.s.get(to)
        if se is None:
            return
        if se.real.state.name == "CLOSED" or se.model.st == "CL":
            return  # a legal application does not feed a closed session (C08 covers that)
        frm = PEER[to]
        pre_ret = len(se.returned)
        ev = w.apply(op)
        if ev.get("noop"):
            return
        st.x["since_q"] += 1
        st.x["delivered"][to] += len(ev["data"])
        st.label("deliver:%s:%s" % (to, "ok" if ev["ok"] else "err"))
        if ev.get("unreadable") or ev.get("expect") is None:
            raise Violation(P, "stream-corrupted/%s" % frm, "the bytes the %s handed to data_to_send() do not frame into RFC 4511 messages "
                            "(independent decoder: %s); the %s %s" % ("client" if frm == "c" else "server", ev.get("unreadable"),
                                                                      "client" if to == "c" else "server",
                                                                      "returned %d messages" % len(ev["msgs"]) if ev["ok"] else "raised " + ev["exc"]["type"]))
        st.x["last_was_mid"][to] = bool(se.mbuf) and ev["ok"]
        sent = st.x["sent"][frm]
        exp = ev["expect"]
        lights = ev["lights"] or []
        if not ev["ok"]:
            if st.x.get("bailing"):
                return
            if not ev["exc"]["proto"]:
                raise Violation(P, "unexpected-exception/%s" % to, "receive on the %s raised %s (%s) although every call was legal" % (
                    "client" if to == "c" else "server", ev["exc"]["type"], ev["exc"]["msg"]))
            if exp[0] == "ok":
                raise Violation(P, "unexpected-protocol-error/%s" % to, "receive on the %s raised ProtocolError (%s) although every call "
                                "was legal and only %s were delivered" % ("client" if to == "c" else "server", ev["exc"]["msg"],
                                                                          [(lt["kind"], lt["id"]) for lt in lights]))
            # expected error: must be the designed termination sent by the peer
            n = exp[1]
            ti = st.x["term_sent"][frm]
            if ti is None or pre_ret + n != ti:
                raise Violation(P, "unexpected-protocol-error/%s" % to, "ProtocolError (%s) at message index %d of the stream, but the "
                                "peer's termination is at index %s" % (ev["exc"]["msg"], pre_ret + n, ti))
            req = ev.get("exc_obj_request")
            if req is None:
                # ProtocolError.request is documented as "the incoming message that caused the protocol error": the termination
                # is a message the peer sent, and this is the only way the application ever receives it
                raise Violation(P, "termination-not-received/%s" % sent[ti]["t"], "the %s sent by the peer ended the session with a "
                                "ProtocolError (%s) that does not carry the message (request=None): not a designed termination" % (
                                    sent[ti]["t"], ev["exc"]["msg"]))
            if req is not None:
                got = norm(canon_msg(req))
                if got != sent[ti]:
                    raise Violation(P, "value-mismatch/%s" % sent[ti]["t"], "termination received as %r, sent as %r" % (got, sent[ti]))
            if n > 0:
                raise Violation(P, "withheld-before-termination", "%d message(s) %s were completed by the same receive() call as the "
                                "%s and were never handed to the application (the call raised)" % (
                                    n, [(lt["kind"], lt["id"]) for lt in lights[:n]], lights[n]["kind"]))
            self._joint(st)
            return
        if exp[0] == "error" and not st.x.get("bailing"):
            raise Diverged("termination not raised (C08's statement)")
        if not ev["well_typed"]:
            raise Diverged("receive returned a non-list (C05's statement)")
        got = se.returned
        if len(got) > len(sent):
            raise Violation(P, "duplicated", "%s has received %d messages, only %d were sent" % (to, len(got), len(sent)))
        for i in range(pre_ret, len(got)):
            g1 = norm(got[i])
            if g1 != sent[i]:
                key = "value-mismatch/%s" % sent[i]["t"]
                if g1 in sent[:i]:
                    key = "duplicated"
                elif g1 in sent[i + 1:]:
                    key = "lost-or-reordered"
                raise Violation(P, key, "message #%d on %s->%s: received %s, sent %s" % (i, frm, to, _short(g1), _short(sent[i])))
        if len(got) - pre_ret != len(lights) and not st.x.get("bailing"):
            raise Violation(P, "lost" if len(got) - pre_ret < len(lights) else "duplicated", "receive() completed %d PDUs but returned %d "
                            "messages" % (len(lights), len(got) - pre_ret))
        if not ev["state_sync"]:
            self._bail(st, "state after receive is %s, model %s (C08's statement)" % (ev["st_after"], ev["mst_after"]))
        for lt in lights:
            if lt["kind"] == "BindResponse" and lt["code"] != 14 and to == "c" and any(
                    m.get("t") == "BindResponse" and m["result"]["code"] == 14 for m in sent[:pre_ret]):
                st.hit("sasl_multistep_completed")
        self._joint(st)

    def _bail(self, st, why):
        """Implementation and model disagree on something C08 owns.  Before giving the run up,
        let C11 speak for itself: bring the world to quiescence and compare the two sides."""
        if st.x.get("bailing"):
            return
        st.x["bailing"] = True
        self._quiesce(st)
        raise Diverged(why)

    def _quiesce(self, st):
        """Drain and deliver everything deliverable, then compare both sides."""
        w = st.w
        st.x["since_q"] = 0
        for _ in range(6):
            moved = False
            for who in ("c", "s"):
                if w.pending(who):
                    self._drain(st, {"op": "drain", "who": who, "n": None})
                    moved = True
            for to in ("c", "s"):
                se = w.s[to]
                if se.inbox and se.real.state.name != "CLOSED" and se.model.st != "CL":
                    self._deliver(st, {"op": "deliver", "to": to, "n": None})
                    moved = True
            if not moved:
                break
        st.x["since_q"] = 0
        st.label("quiesce")
        st.hit("quiescence_checked")
        c, s = w.s["c"], w.s["s"]
        cs, ss = c.real.state.name, s.real.state.name
        norm_state = {"BEFORE_OPEN": "OPENED"}
        if norm_state.get(cs, cs) != norm_state.get(ss, ss):
            raise Violation(P, "state-disagreement", "all bytes delivered: client is %s, server is %s" % (cs, ss))
        # everything sent has arrived (unless the receiver closed itself first)
        for frm, to in (("c", "s"), ("s", "c")):
            sent = st.x["sent"][frm]
            rcv = w.s[to]
            ti = st.x["term_sent"][frm]
            want = len(sent) if ti is None else ti
            if rcv.real.state.name == "CLOSED" and (ti is None or st.x["term_sent"][to] is not None):
                continue  # receiver terminated on its own account: later messages towards it are moot
            if len(rcv.returned) != want:
                key = "not-delivered-at-quiescence" if len(rcv.returned) < want else "duplicated"
                raise Violation(P, key, "%s->%s: %d messages sent before any termination, %d received, %d bytes parked in the "
                                "receiver" % (frm, to, want, len(rcv.returned), len(rcv.mbuf)))
        # agreement on operations in progress, by probes on deep copies
        if c.mbuf or s.mbuf:
            return
        if cs != "CLOSED" and ss != "CLOSED":
            ce = w.probe_client_idle("c")
            se_ = w.probe_server_idle("s")
            st.hit("idle_probe")
            if ce != se_:
                raise Violation(P, "in-progress-disagreement", "all bytes delivered: the client %s a new bind (operations in progress: "
                                "%s), the server %s a BindRequest (operations outstanding: %s)" % (
                                    "accepts" if ce else "refuses", "none" if ce else "some", "accepts" if se_ else "refuses",
                                    "none" if se_ else "some"))
        ids = sorted(set(st.x["ids"]))[-12:] + [max(st.x["ids"] + [0]) + 1]
        for mid in ids:
            pc = w.probe_in_progress("c", mid)
            ps = w.probe_in_progress("s", mid, c.model.kinds.get(mid))
            st.hit("in_progress_probe_ids")
            if ps is not None and pc != ps:
                raise Violation(P, "in-progress-disagreement", "all bytes delivered: id %d is %s on the client and %s on the server" % (
                    mid, "in progress" if pc else "not in progress", "in progress" if ps else "not in progress"))
            if pc and c.model.kinds.get(mid) == "SearchRequest":
                if not w.probe_is_search("c", mid):
                    raise Violation(P, "in-progress-disagreement", "search %d: an entry retires it on the client" % mid)
                if ss == "OPENED" and not w.probe_server_entry_keeps(mid):
                    raise Violation(P, "in-progress-disagreement", "search %d: an entry retires it on the server" % mid)
        self._joint(st)

    def finish(self, st):
        self._quiesce(st)

    def nontrivial(self, st):
        return st.x["midpdu"] and st.x["two"] and st.x["resp_while_req"]

    def distinct_key(self, st):
        return repr((sorted(st.trigrams), sorted(st.x["joint"])))


def _short(m):
    s = repr(m)
    return s if len(s) < 400 else s[:400] + "..."
