"""C06 - no complete protocol data unit is ever silently discarded (DESIGN 5.3).

Fault family `interior`: PDUs whose outer TLV is complete and exact while the interior is
malformed (inner length beyond the envelope, truncated / missing components re-framed, known
control with a short value ...), mixed with intact PDUs, delivered under seeded chunkings to a
prepared session.  Oracle: an independent framer counts complete outer units in the delivered
bytes; after every receive() that returns normally, messages returned == units delivered.
"""
from __future__ import annotations

import sansldap

from .. import ber, faults, policy, rfc4511
from ..values import Gen
from ..world import Violation, World
from .base import PropBase, St
from .c02 import C02, _do

P = "C06"


class C06(PropBase):
    ID = P
    LEVEL = "fault_enumeration"
    RULE = ("one run = one prepared session + a stream of 1-12 PDUs of which at least one has been damaged in its interior and re-framed so "
            "that the outer TLV is complete and exact (fault kinds in faults_fired), delivered under a seeded chunking; an independent "
            "framer counts complete outer units D in the bytes delivered so far and after every normally returning receive() the number "
            "of messages returned R must equal D; at the end one more intact PDU must come out alone; non-trivial = at least one "
            "damaged-but-complete PDU was delivered to a non-closed session and the call that completed it was observed; distinct = "
            "(damage kind, PDU kind, position of the damaged PDU in its chunk, receive path) tuples of the run")
    ASSUMPTIONS = ["a call that raises ProtocolError accounts for everything delivered (the class of the error is C05's business)",
                   "the framer in simldap/ber.py is the arbiter of 'complete outer unit' (X.690 definite lengths, any length-of-length)"]
    RUNS = {"quick": 60000, "thorough": 1500000}
    STEPS = {"quick": 300, "thorough": 300}
    REQUIRED_REACH = ("damaged_alone_in_chunk", "damaged_followed_by_intact_same_chunk", "damaged_split_across_calls",
                      "damaged_on_residue_path", "damaged_on_direct_path", "damaged_but_still_decodes", "error_raised_for_damaged",
                      "final_probe_pdu", "client_subject", "server_subject", "subject_unbound_before_stream", "other_session_between_chunks")
    REQUIRED_CELLS = tuple("fault:%s" % k for k in faults.INTERIOR)

    def __init__(self, tier="quick"):
        super().__init__(tier)
        self.c02 = C02(tier)
        self.c02.LIGHT_STREAMS = True  # no multi-MiB streams and no 32766-operation histories here (C02 has them)

    def init_op(self, rng):
        try:
            return self._init_op(rng)
        except Exception as e:  # noqa: BLE001
            init = self.c02.init_op(__import__("random").Random(0))
            init["gen_error"] = repr(e)
            return init

    def _init_op(self, rng):
        init = self.c02._init_op(rng)
        stream = bytes.fromhex(init["stream"])
        units, rest, _flag = ber.frame_units(stream)
        pdus = [stream[a:b] for a, b in units]
        focus = faults.INTERIOR[self.idx % len(faults.INTERIOR)]
        damaged = []
        ndam = rng.choice([1, 1, 1, 2, 3])
        order = list(range(len(pdus)))
        rng.shuffle(order)
        want_paged = focus == "control_value_damage"
        for i in order:
            if len(damaged) >= ndam:
                break
            f = None
            for attempt in range(6):
                f = faults.choose(rng, pdus[i], "interior")
                if f is None:
                    continue
                if not damaged and attempt < 4 and f["kind"] != focus:
                    continue
                new = faults.apply(pdus[i], f)
                if new is None or new == pdus[i] or not faults.outer_intact(new):
                    f = None
                    continue
                pdus[i] = new
                damaged.append({"pdu": i, "fault": f})
                break
        if want_paged and not any(d["fault"]["kind"] == "control_value_damage" for d in damaged):
            # make sure the paged-results control occurs: append a request/response carrying it
            pass
        init["stream"] = b"".join(pdus).hex()
        init["damaged"] = damaged
        init["pdu_lens"] = [len(p) for p in pdus]
        init["final_id"] = 77777
        init["unbind_first"] = rng.random() < 0.08  # the application unbinds (operations still in progress) before the bytes arrive
        return init

    def make(self, init):
        w = World(init)
        st = St(w)
        S = w.s["S"]
        x = st.x = {"discard": None, "off": 0, "R": 0, "seen": set(), "cells": set(), "error": False, "stream": bytes.fromhex(init["stream"])}
        if init.get("gen_error"):
            x["discard"] = init["gen_error"]
            return st
        try:
            for p in init["prep"]:
                if p["kind"] == "call":
                    _do(S.real, p["m"], p["a"])
                else:
                    S.real.receive(bytes.fromhex(p["hex"]))
                S.real.data_to_send()
            if init.get("unbind_first"):
                S.real.unbind()
                S.real.data_to_send()
                st.hit("subject_unbound_before_stream")
            elif init["role"] == "c":
                # one extra request whose response is kept for the final probe
                self.final_id = None
                if S.real.state.name != "BINDING":
                    x["final_id"] = S.real.extended_request("1.2.3.4.5")
                    S.real.data_to_send()
        except Exception as e:  # noqa: BLE001
            x["discard"] = "preparation failed: %r" % (e,)
            return st
        # absolute extents of the PDUs in the stream
        ext = []
        p = 0
        for ln in init.get("pdu_lens", []):
            ext.append((p, p + ln))
            p += ln
        x["ext"] = ext
        x["dam"] = {d["pdu"]: d["fault"]["kind"] for d in init.get("damaged", [])}
        if not x["dam"] and not init.get("unbind_first"):
            x["discard"] = "no applicable interior fault for this stream"
        S.inbox.extend(x["stream"])
        st.hit("client_subject" if init["role"] == "c" else "server_subject")
        return st

    def next_op(self, st, rng):
        x = st.x
        if x["discard"] or x["error"]:
            return None
        S = st.w.s["S"]
        avail = len(S.inbox)
        if avail == 0:
            return None
        off = x["off"]
        style = st.w.init["style"]
        r = rng.random()
        ends = [b for a, b in x["ext"] if b > off]
        if r < 0.25 and ends:
            # exactly to the end of the k-th next PDU (damaged PDU alone / followed by intact ones)
            n = ends[min(rng.choice([0, 0, 1, 2]), len(ends) - 1)] - off
        elif r < 0.4 and ends:
            n = max(0, ends[0] - off - rng.choice([1, 2, 3]))
        elif style == "byte":
            n = 1
        else:
            n = policy.chunk_len(rng, avail, "mixed")
        n = max(0, min(n, avail))
        if rng.random() < 0.05:
            return {"op": "interlope", "id": rng.choice([1, 9, 4000])}
        if rng.random() < 0.02:
            # an application bug between two reads: receive() is called with something that is not bytes-like
            return {"op": "misuse", "kind": rng.choice(["str", "none", "float", "object"])}
        bk, scr = policy.buf_kind(rng)
        return {"op": "deliver", "n": n, "buf": bk, "scribble": scr}

    def step(self, st, op):
        if op["op"] == "misuse":
            if not st.x["discard"] and not st.x["error"]:
                st.w.misuse_receive("S", op.get("kind"))
                st.hit("misuse_between_chunks")
            return
        if op["op"] == "interlope" and not st.x["discard"] and not st.x["error"]:
            # an unrelated session of the same process is handed one complete unit while the subject may hold a partial one:
            # it must account for it like any other session
            other = sansldap.LDAPServer()
            probe = rfc4511.enc_msg({"t": "ExtendedRequest", "id": int(op.get("id", 1)), "controls": [], "name": "1.3.6.1.4.1.1466.20037", "value": None})
            st.hit("other_session_between_chunks")
            try:
                r = other.receive(probe)
            except sansldap.ProtocolError:
                return
            except Exception:  # noqa: BLE001
                return
            if not isinstance(r, list) or len(r) != 1:
                raise Violation(P, "swallowed/other-session", "a fresh server session was handed one complete ExtendedRequest between two "
                                "deliveries to the subject and returned %r without raising" % (r,))
            return
        if op["op"] != "deliver":
            return
        x = st.x
        if x["discard"] or x["error"]:
            return
        w = st.w
        S = w.s["S"]
        start = x["off"]
        done_before = [i for i, (a, b) in enumerate(x["ext"]) if b <= start]
        residue = start - (x["ext"][done_before[-1]][1] if done_before else 0)
        ev = w.apply(dict(op, to="S"))
        if ev.get("noop"):
            return
        n = len(ev["data"])
        x["off"] += n
        x.setdefault("rx", bytearray()).extend(ev["data"])  # everything handed to receive(), whatever the session's state
        st.label("deliver:%s" % ("ok" if ev["ok"] else "err"))
        completed = [i for i, (a, b) in enumerate(x["ext"]) if start < b <= x["off"]]
        dam_completed = [i for i in completed if i in x["dam"]]
        for i in dam_completed:
            kind = x["dam"][i]
            st.fault(kind)
            st.cell("fault:%s" % kind)
            a, b = x["ext"][i]
            if a < start:
                pos = "split"
                st.hit("damaged_split_across_calls")
            elif any(j > i for j in completed):
                pos = "followed"
                st.hit("damaged_followed_by_intact_same_chunk")
            elif completed == [i] and b == x["off"] and a == start:
                pos = "alone"
                st.hit("damaged_alone_in_chunk")
            else:
                pos = "mixed"
            path = "residue" if residue > 0 else "direct"
            st.hit("damaged_on_%s_path" % path)
            x["cells"].add((kind, i, pos, path, ev["ok"]))
            x["seen"].add(i)
        if not ev["ok"] and not ev["exc"]["proto"] and ev["st_after"] != "CLOSED":
            # neither a message nor a protocol error: the units this call completed are not accounted for yet - the run
            # goes on and the count below decides (the exception class itself is C05's statement)
            st.hit("foreign_exception_then_continued")
            return
        if not ev["ok"]:
            x["error"] = True
            if dam_completed:
                st.hit("error_raised_for_damaged")
            if not ev["exc"]["proto"]:
                st.hit("foreign_exception_logged_for_C05")
            return
        if not ev["well_typed"]:
            return
        if dam_completed:
            st.hit("damaged_but_still_decodes")
        x["R"] += len(ev["msgs"])
        units, _rest, flag = ber.frame_units(x["rx"])
        D = len(units)
        if flag is None and x["R"] < D:
            raise Violation(P, "swallowed", "%d complete outer PDUs have been delivered (%d bytes) but receive() has returned only %d "
                            "messages and raised nothing; this call delivered %d bytes completing PDUs %s (damage: %s); state %s" % (
                                D, len(x["rx"]), x["R"], n, completed, [x["dam"].get(i) for i in completed], ev["st_after"]))
        if x["R"] > D:
            raise Violation(P, "invented", "%d messages returned but only %d complete outer PDUs delivered" % (x["R"], D))

    def finish(self, st):
        x = st.x
        if x["discard"]:
            st.flags["discarded"] = 1
            return
        if x["error"]:
            return
        w = st.w
        S = w.s["S"]
        if S.inbox:
            self.step(st, {"op": "deliver", "n": len(S.inbox), "buf": "bytes"})
            if x["error"]:
                return
        if S.real.state.name == "CLOSED":
            return
        # everything has been delivered and no protocol error was raised: the count must be complete now
        self.step(st, {"op": "deliver", "n": 0, "buf": "bytes"})
        if x["error"] or S.real.state.name == "CLOSED":
            return
        # nothing may be stuck: one more intact PDU must come out, alone
        if st.w.init["role"] == "s":
            probe = rfc4511.enc_msg({"t": "ExtendedRequest", "id": st.w.init.get("final_id", 77777), "controls": [],
                                     "name": "1.3.6.1.4.1.1466.20037", "value": None})
        else:
            fid = x.get("final_id")
            if fid is None:
                return
            probe = rfc4511.enc_msg({"t": "ExtendedResponse", "id": fid, "controls": [], "name": None, "value": None,
                                     "result": {"code": 0, "matched_dn": "", "diag": ""}})
        st.hit("final_probe_pdu")
        try:
            r = S.real.receive(probe)
        except sansldap.ProtocolError:
            return
        except Exception:  # noqa: BLE001
            return
        if not isinstance(r, list) or len(r) != 1:
            raise Violation(P, "stuck-behind", "after the whole stream was delivered without error, one more intact PDU was fed and "
                            "receive() returned %d messages" % (len(r) if isinstance(r, list) else -1))

    def nontrivial(self, st):
        return bool(st.x["seen"])

    def distinct_key(self, st):
        return repr(sorted(st.x["cells"]))
