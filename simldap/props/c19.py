"""C19 - sessions are isolated; custom types take effect per session only (DESIGN 5.9).

K sessions, each with an open-loop script (calls, drains, deliveries of canned bytes,
register_* at seeded points, duplicate registrations).  Each script is run alone in a freshly
forked child (pristine import state), then all scripts are run interleaved - the op list order
plus further seeded merge orders - in forked children as well; every session's transcript must
equal its isolated baseline.  Registration semantics are asserted directly too.
"""
from __future__ import annotations

import hashlib
import json
import os
import random

from .. import ber, policy, rfc4511
from ..model import Model
from ..rfc4511 import NOTICE_OID
from ..values import Gen, expected_message
from ..world import HarnessError, Violation
from .base import PropBase, St

P = "C19"
TYPES = ("CustomAuth", "CustomControl", "CustomFilter")
# unknown result codes incl. pairs that are congruent modulo 2**32 (process-global enum pseudo-members)
CODES = [4096, 8235, 70, -1, 4294967295, 2 ** 32 + 4096, 2 ** 32 + 80, 2 ** 33 + 80, 2 ** 32 + 70]
ALT = {"CustomAuth": "AltAuth", "CustomControl": "AltControl", "CustomFilter": "AltFilter"}
SLOT = {"CustomAuth": "auth", "AltAuth": "auth", "CustomControl": "control", "AltControl": "control",
        "CustomFilter": "filter", "AltFilter": "filter", "EdgeFilter1280": "filter1280", "EdgeFilter2048": "filter2048",
        "SubEquality": "filter1025", "SubSimple": "auth10"}
EXTRA_FILTERS = ("EdgeFilter1280", "EdgeFilter2048", "SubEquality", "SubSimple")  # (further custom types; the last one is a credential)


# ------------------------------------------------------------------ child side (runs library code)


_SHARED = bytearray()
_FANOUT = {}
_FANOUT_MV = {}


def _transcribe(sessions, order_ops):
    """Execute ops (each tagged with session index) and return per-session transcripts."""
    import sansldap

    from ..values import build_call, canon_msg
    from ..world import state_name

    live = {}
    out = {}
    kept = {}
    for op in order_ops:
        i = op["s"]
        if i not in live:
            live[i] = sansldap.LDAPClient() if sessions[i]["role"] == "c" else sansldap.LDAPServer()
            out[i] = []
        se = live[i]
        k = op["k"]
        rec = {"k": k}
        if k == "restart":
            # connection closed, a new one accepted / opened: the old session object is dropped, a new one takes its place
            del se
            live[i] = None
            live[i] = sansldap.LDAPClient() if sessions[i]["role"] == "c" else sansldap.LDAPServer()
            rec["state"] = state_name(live[i])
            out[i].append(rec)
            continue
        try:
            if k == "call" or k == "reg":
                args, kw = build_call(op["m"], op.get("a", {}))
                r = getattr(se, op["m"])(*args, **kw)
                rec["ret"] = r if (r is None or isinstance(r, int)) else repr(r)
            elif k == "drain":
                d = se.data_to_send(op["n"]) if op.get("n") is not None else se.data_to_send()
                rec["ret"] = bytes(d).hex()
            elif k == "recv":
                data = bytes.fromhex(op["hex"])
                if op.get("ba") and op.get("part") == 1 and op.get("mv"):
                    # ... or the very same memoryview object
                    msgs = se.receive(_FANOUT_MV.setdefault(op["hex"], memoryview(bytes(data))))
                elif op.get("ba") and op.get("part") == 1:
                    # a fan-out layer hands the very same (never modified) bytearray object to every session whose
                    # stream starts with these octets
                    msgs = se.receive(_FANOUT.setdefault(op["hex"], bytearray(data)))
                elif op.get("ba"):
                    # one caller-owned receive buffer for every connection of the process (an event loop's recv_into
                    # buffer): same object each time, refilled before each receive
                    _SHARED[:] = data
                    msgs = se.receive(_SHARED)
                else:
                    msgs = se.receive(data)
                rec["ret"] = [canon_msg(m) for m in msgs]
                rec["types"] = [[[type(c).__name__, _rawval(c)] for c in (m.controls or [])] for m in msgs]
                kept.setdefault(i, []).extend(msgs)
        except Exception as e:  # noqa: BLE001
            rec["exc"] = [type(e).__name__, str(e)[:300]]
            resp = getattr(e, "response", None)
            if isinstance(resp, (bytes, bytearray)):
                rec["resp"] = bytes(resp).hex()
        rec["state"] = state_name(se)
        out[i].append(rec)
    # returned messages are self-contained values: what each session was handed must still read the same at the end
    for i, msgs in kept.items():
        out[i].append({"k": "final", "ret": [canon_msg(m) for m in msgs],
                       "types": [[[type(c).__name__, _rawval(c)] for c in (m.controls or [])] for m in msgs],
                       "codes": [[getattr(m.result.result_code, "name", None), int(getattr(m.result.result_code, "value", -1))]
                                 for m in msgs if hasattr(m, "result")]})
    return {str(i): v for i, v in out.items()}


def _rawval(c):
    v = getattr(c, "value", None)
    return bytes(v).hex() if isinstance(v, (bytes, bytearray, memoryview)) else v


def _registration_semantics(customs_bytes):
    """Direct assertions on register_* (returns a list of [class_key, detail] problems).
    Runs in a forked child; every library call is guarded so that a defect becomes a finding,
    never a harness failure."""
    import sansldap

    from .. import customtypes as ct

    problems = []

    def guarded(key, what, fn, *a, **kw):
        try:
            return True, fn(*a, **kw)
        except Exception as e:  # noqa: BLE001
            if key:
                problems.append([key, "%s raised %s: %s" % (what, type(e).__name__, e)])
            return False, e

    # the built-in types are registered from the start: registering them again is a duplicate registration
    builtin = [("register_auth_credential", sansldap.SimpleCredential), ("register_auth_credential", sansldap.SaslCredential),
               ("register_control", sansldap.PagedResultControl), ("register_control", sansldap.ShowDeletedControl),
               ("register_control", sansldap.ShowDeactivatedLinkControl)]
    for fname in ("FilterAnd", "FilterOr", "FilterNot", "FilterEquality", "FilterSubstrings", "FilterGreaterOrEqual",
                  "FilterLessOrEqual", "FilterPresent", "FilterApproxMatch", "FilterExtensibleMatch"):
        builtin.append(("register_filter", getattr(sansldap, fname)))
    for role_cls in (sansldap.LDAPClient, sansldap.LDAPServer):
        for meth0, cls0 in builtin:
            sess0 = role_cls()
            ok, e = guarded(None, "", getattr(sess0, meth0), cls0)
            if ok:
                problems.append(["duplicate-registration-accepted/%s" % cls0.__name__, "%s(%s) on a fresh %s did not raise although the "
                                 "type is registered from the start" % (meth0, cls0.__name__, role_cls.__name__)])
            elif not isinstance(e, ValueError):
                problems.append(["duplicate-registration-accepted/%s" % cls0.__name__, "duplicate registration raised %s" % type(e).__name__])
    # registering AFTER the session has already decoded traffic must take effect as well
    late_c = sansldap.LDAPClient()
    ok, mid1 = guarded("registration-missing/late", "extended_request on a fresh client", late_c.extended_request, "1.2.3")
    if ok:
        late_c.data_to_send()
        first = rfc4511.enc_msg({"t": "ExtendedResponse", "id": mid1, "controls": [{"t": "Control", "type": "2.16.840.1.113730.3.4.2",
                                 "critical": False, "value": None}, {"t": "Paged", "critical": False, "size": 1, "cookie": ""},
                                 {"t": "CustomControl", "critical": False, "size": 3}],  # the very OID that is registered later: a plain control for now
                                 "name": None, "value": None, "result": {"code": 0, "matched_dn": "", "diag": ""}})
        guarded("registration-missing/late", "receive before the late registration", late_c.receive, first)
        guarded("registration-missing/late", "register_control after traffic", late_c.register_control, ct.BY_NAME["CustomControl"])
        ok, mid2 = guarded("registration-missing/late", "second extended_request", late_c.extended_request, "1.2.3")
        if ok:
            late_c.data_to_send()
            second = rfc4511.enc_msg({"t": "ExtendedResponse", "id": mid2, "controls": [{"t": "CustomControl", "critical": True, "size": 7}],
                                      "name": None, "value": None, "result": {"code": 0, "matched_dn": "", "diag": ""}})
            ok, r = guarded("registration-missing/late", "receive after the late registration", late_c.receive, second)
            if ok and (not r or not r[0].controls or type(r[0].controls[0]).__name__ != "CustomControl"):
                problems.append(["registration-missing/late-control", "a control type registered after the session had already decoded "
                                 "controls is still decoded as %s" % (type(r[0].controls[0]).__name__ if r and r[0].controls else None)])
    late_s = sansldap.LDAPServer()
    guarded("registration-missing/late", "receive before the late registration", late_s.receive,
            rfc4511.enc_msg(expected_message("search_request", {"filter": {"t": "Equality", "attribute": "cn", "value": "78"}}, 1)))
    guarded("registration-missing/late", "register_filter after traffic", late_s.register_filter, ct.BY_NAME["CustomFilter"])
    guarded("registration-missing/late", "register_auth_credential after traffic", late_s.register_auth_credential, ct.BY_NAME["CustomAuth"])
    ok, r = guarded("registration-missing/late-filter", "receive of a custom filter registered after traffic", late_s.receive,
                    rfc4511.enc_msg(dict(expected_message("search_request", {}, 2), filter={"t": "And", "filters": [{"t": "CustomFilter", "value": "abc"}]})))
    if ok and (not r or type(r[0].filter.filters[0]).__name__ != "CustomFilter"):
        problems.append(["registration-missing/late-filter", "late registered filter decoded as %r" % (r,)])
    # a registered custom filter is decoded wherever the grammar allows a filter: under not / and / or, nested
    for shape in ("not", "and", "or", "not-and"):
        srv = sansldap.LDAPServer()
        guarded("registration-missing/nested-filter", "register_filter", srv.register_filter, ct.BY_NAME["CustomFilter"])
        inner = {"t": "CustomFilter", "value": "abc"}
        f = {"not": {"t": "Not", "filter": inner}, "and": {"t": "And", "filters": [inner]}, "or": {"t": "Or", "filters": [{"t": "Present", "attribute": "cn"}, inner]},
             "not-and": {"t": "And", "filters": [{"t": "Not", "filter": inner}]}}[shape]
        ok, r = guarded("registration-missing/nested-filter", "receive of a registered custom filter nested under %s" % shape, srv.receive,
                        rfc4511.enc_msg(dict(expected_message("search_request", {}, 1), filter=f)))
        if ok and (not r or "CustomFilter" not in repr(r[0].filter)):
            problems.append(["registration-missing/nested-filter", "custom filter under %s decoded as %r" % (shape, r)])
    # a custom control deriving from a public built-in control class: still per session only
    for role_cls in (sansldap.LDAPClient, sansldap.LDAPServer):
        fresh = role_cls()
        data = rfc4511.enc_msg({"t": "ExtendedRequest" if role_cls is sansldap.LDAPServer else "ExtendedResponse", "id": 1, "name": "1.2.3",
                                "value": None, "result": {"code": 0, "matched_dn": "", "diag": ""},
                                "controls": [{"t": "Control", "type": "1.2.3.4.9", "critical": True, "value": None}]})
        if role_cls is sansldap.LDAPClient:
            guarded(None, "", fresh.extended_request, "1.2.3")
            fresh.data_to_send()
        ok, r = guarded("registration-leaked/SubControl", "receive of a message carrying OID 1.2.3.4.9 on a session that never registered it",
                        fresh.receive, data)
        if ok and r and r[0].controls and type(r[0].controls[0]).__name__ != "LDAPControl":
            problems.append(["registration-leaked/SubControl", "a session that never registered it decodes OID 1.2.3.4.9 as %s" % type(r[0].controls[0]).__name__])
        fresh2 = role_cls()
        guarded("second-session-registration-refused/SubControl", "first register_control(SubControl) on a fresh %s" % role_cls.__name__,
                fresh2.register_control, ct.BY_NAME["SubControl"])
    for typ in TYPES:
        a_c, a_s = sansldap.LDAPClient(), sansldap.LDAPServer()
        b_c, b_s = sansldap.LDAPClient(), sansldap.LDAPServer()
        meth = ct.REGISTER_METHOD[typ]
        for name, a in (("client", a_c), ("server", a_s)):
            ok, _ = guarded("second-session-registration-refused/%s" % typ, "first %s(%s) on a fresh %s" % (meth, typ, name),
                            getattr(a, meth), ct.BY_NAME[typ])
            if not ok:
                continue
            ok, e = guarded(None, "", getattr(a, meth), ct.BY_NAME[typ])
            if ok:
                problems.append(["duplicate-registration-accepted/%s" % typ, "second %s(%s) on the same session did not raise" % (meth, typ)])
            elif not isinstance(e, ValueError):
                problems.append(["duplicate-registration-accepted/%s" % typ, "duplicate registration raised %s, not ValueError" % type(e).__name__])
        if typ == "CustomControl":
            # response carrying the control: towards clients (A registered, B not)
            res = {}
            for name, c in (("a", a_c), ("b", b_c)):
                ok, mid = guarded("registration-missing/%s" % typ, "extended_request on a fresh client", c.extended_request, "1.2.3")
                if not ok:
                    continue
                c.data_to_send()
                data = rfc4511.enc_msg({"t": "ExtendedResponse", "id": mid, "controls": [
                    {"t": "CustomControl", "critical": customs_bytes[typ]["critical"], "size": customs_bytes[typ]["size"]}],
                    "name": None, "value": None, "result": {"code": 0, "matched_dn": "", "diag": ""}})
                ok, r = guarded("registration-missing/%s" % typ if name == "a" else "registration-leaked/%s" % typ,
                                "receive of a response carrying the custom control (session %s)" % name, c.receive, data)
                if ok and r and r[0].controls:
                    res[name] = r[0].controls[0]
            ca, cb = res.get("a"), res.get("b")
            if ca is not None and (type(ca).__name__ != "CustomControl" or getattr(ca, "size", None) != customs_bytes[typ]["size"]):
                problems.append(["registration-missing/%s" % typ, "registered session decoded the control as %r" % (ca,)])
            if cb is not None:
                if type(cb).__name__ != "LDAPControl":
                    problems.append(["registration-leaked/%s" % typ, "session without the registration decoded the control as %s" % type(cb).__name__])
                elif (cb.control_type, bool(cb.critical), cb.value) != ("1.2.3.4", customs_bytes[typ]["critical"],
                                                                       customs_bytes[typ]["size"].to_bytes(4, "big")):
                    problems.append(["registration-leaked/%s" % typ, "generic decode differs: %r" % (cb,)])
        else:
            data = bytes.fromhex(customs_bytes[typ]["hex"])
            ok, ra = guarded("registration-missing/%s" % typ, "registered server receiving the custom type", a_s.receive, data)
            if ok:
                inner = ra[0].filter if typ == "CustomFilter" else ra[0].authentication
                if type(inner).__name__ != typ:
                    problems.append(["registration-missing/%s" % typ, "registered session decoded %s" % type(inner).__name__])
            ok, rb = guarded(None, "", b_s.receive, data)
            if ok:
                problems.append(["registration-leaked/%s" % typ, "session without the registration accepted the custom type: %r" % (rb,)])
            elif not isinstance(rb, sansldap.ProtocolError):
                problems.append(["registration-leaked/%s" % typ, "unregistered session raised %s, not ProtocolError" % type(rb).__name__])
        # registering on B afterwards still works
        for b in (b_c, b_s):
            if b.state.name == "CLOSED":
                b = type(b)()
            guarded("second-session-registration-refused/%s" % typ, "%s on a second session" % meth, getattr(b, meth), ct.BY_NAME[typ])
    return problems


def _in_child(fn, *args):
    """Run fn(*args) in a freshly forked child and return its JSON-able result."""
    r, w = os.pipe()
    pid = os.fork()
    if pid == 0:
        code = 0
        try:
            os.close(r)
            try:
                res = {"ok": fn(*args)}
            except BaseException as e:  # noqa: BLE001
                import traceback

                res = {"err": traceback.format_exc()[-2000:], "type": type(e).__name__}
            data = json.dumps(res, sort_keys=True).encode()
            with os.fdopen(w, "wb") as fh:
                fh.write(data)
        except BaseException:  # noqa: BLE001
            code = 3
        finally:
            os._exit(code)
    os.close(w)
    chunks = []
    with os.fdopen(r, "rb") as fh:
        while True:
            b = fh.read(1 << 16)
            if not b:
                break
            chunks.append(b)
    _pid, status = os.waitpid(pid, 0)
    if status != 0 or not chunks:
        raise HarnessError("forked child failed (status %s)" % status)
    res = json.loads(b"".join(chunks))
    if "err" in res:
        raise HarnessError("child raised: %s" % res["err"])
    return res["ok"]


# ------------------------------------------------------------------ the check


class C19(PropBase):
    ID = P
    RULE = ("one run = K in {2,3,4} sessions (clients and servers) with seeded open-loop scripts of calls (legal and illegal), drains, "
            "deliveries of canned byte strings (incl. PDUs carrying custom control / filter / credential types) and register_* calls at "
            "seeded points incl. duplicates; each script is run alone in a freshly forked child, then all scripts interleaved (op-list "
            "order + 3 further seeded merge orders) in forked children; transcripts (returns, exception class+text, state, drained bytes) "
            "must be identical; non-trivial = at least 2 sessions each executed an op between two ops of the other, at least one registration, at least one "
            "decode of a custom-typed PDU on a session without the registration; distinct = hash of (roles, registration subsets, op kind "
            "sequence)")
    ASSUMPTIONS = ["scripts are open-loop (canned inputs), so 'running it alone' is well defined",
                   "a forked child that has not yet executed library code has pristine module/class level state",
                   "line-level pre-emption inside calls is outside the statement (it quantifies over interleavings of calls)"]
    RUNS = {"quick": 4000, "thorough": 60000}
    STEPS = {"quick": 200, "thorough": 300}
    BATCH = 25
    REQUIRED_REACH = ("custom_pdu_on_unregistered_session", "custom_pdu_on_registered_session", "duplicate_registration",
                      "registration_after_traffic", "same_type_registered_on_two_sessions", "interleavings_compared",
                      "registration_semantics_checked", "unknown_result_code_on_two_sessions", "same_id_different_class_on_two_sessions",
                      "send_failed_while_encoding", "shared_recv_buffer_with_residue", "envelope_name_on_other_kind", "session_restarted", "invalid_utf8_in_filter_text")

    # ---------------------------------------------------------------- generation (no library code here)

    def init_op(self, rng):
        k = rng.choice([2, 2, 3, 4])
        sessions = [{"role": rng.choice(["c", "s"])} for _ in range(k)]
        return {"op": "init", "nsessions": k, "roles": [s["role"] for s in sessions], "perm_seeds": [rng.getrandbits(32) for _ in range(3)],
                "len": rng.choice([8, 15, 25, 40]), "sessions": []}

    def make(self, init):
        st = St(_FakeWorld(init))
        k = init["nsessions"]
        st.x = {"ops": [], "gen": None, "nontrivial": False, "kinds": []}
        return st

    def _gen_state(self, st, rng):
        init = st.w.init
        gs = []
        for i in range(init["nsessions"]):
            gs.append({"role": init["roles"][i], "model": Model(init["roles"][i]), "regs": set(), "n": 0, "next_req": 1,
                       "plan_regs": [(t if rng.random() < 0.6 else ALT[t]) for t in TYPES if rng.random() < 0.45] +
                                    [t for t in EXTRA_FILTERS if rng.random() < 0.3]})
        return gs

    def next_op(self, st, rng):
        init = st.w.init
        if st.x["gen"] is None:
            st.x["gen"] = self._gen_state(st, rng)
        gs = st.x["gen"]
        live = [i for i, g in enumerate(gs) if g["n"] < init["len"]]
        if not live:
            return None
        i = rng.choice(live)
        g = gs[i]
        g["n"] += 1
        return dict(self._script_op(g, rng), s=i)

    def _script_op(self, g, rng):
        if g.get("queue"):
            return g["queue"].pop(0)
        if rng.random() < 0.04 or (g["model"].st == "CL" and rng.random() < 0.5):
            # the connection ends; the application creates a fresh session object (with fresh registrations to make)
            g["model"] = Model(g["role"])
            g["regs"] = set()
            g["next_req"] = 1
            return {"k": "restart"}
        model = g["model"]
        role = g["role"]
        gen = Gen(rng, big=0.05, customs=sorted(x for x in g["regs"] if x in TYPES))
        gen.odd_known = True
        genc = Gen(rng, big=0.05, customs=sorted(x for x in g["regs"] if x in TYPES), bad_text=0.02)  # call arguments only
        x = rng.random()
        # registrations (planned ones early or late; duplicates now and then)
        if x < 0.12:
            todo = [t for t in g["plan_regs"] if t not in g["regs"]]
            if todo and rng.random() < 0.7:
                t = rng.choice(todo)
                g["regs"].add(t)
            else:
                t = rng.choice(TYPES + tuple(ALT.values()) + EXTRA_FILTERS) if not g["regs"] or rng.random() < 0.3 else rng.choice(sorted(g["regs"]))
                if SLOT[t] not in {SLOT[x] for x in g["regs"]} and rng.random() < 0.5:
                    g["regs"].add(t)
            from ..customtypes import REGISTER_METHOD

            return {"k": "reg", "m": REGISTER_METHOD[t], "a": {"type": t}}
        if x < 0.25:
            n, _ = policy.drain_amount(rng, 20)
            return {"k": "drain", "n": n}
        if x < 0.36:
            return self._custom_pdu(g, rng)
        if rng.random() < 0.03:
            # an invalid payload (a complete unit that is no LDAPMessage; a messageID under another tag ...): this session ends
            # with an error whose text and notification bytes must not depend on what any other session did before
            if rng.random() < 0.5:
                data = bytes.fromhex(policy.garbage_unit(rng))
            else:
                body = ber.tlv(ber.APPLICATION, True, 23, ber.octets(b"1.2.3", ber.CONTEXT, 0)) if role == "s" else \
                    ber.tlv(ber.APPLICATION, True, 24, ber.enumerated(0) + ber.octets(b"") + ber.octets(b""))
                data = ber.sequence([ber.tlv(rng.choice([(ber.UNIVERSAL, 4), (ber.UNIVERSAL, 10), (ber.CONTEXT, 0)])[0], False,
                                             rng.choice([4, 10, 1]), bytes([rng.choice([1, 2, 3, 77])])), body])
            self._model_recv(g, data, fatal=True)
            return self._recv_ops(g, rng, data)
        if role == "c":
            if model.out and x < 0.7:
                mid = policy.pick_sorted(rng, model.out) if rng.random() < 0.93 else model.last_id + 5
                kind = policy.matching_response_kind(rng, model, mid) if mid in model.out else "ExtendedResponse"
                code = rng.choice([None, None, 14] + CODES) if kind == "BindResponse" else None
                msg = policy.byz_response(gen, mid, kind, code)
                if kind != "BindResponse" and rng.random() < 0.3 and "result" in msg:
                    msg["result"]["code"] = rng.choice(CODES)
                if rng.random() < 0.15:
                    msg["envelope_name"] = rng.choice([NOTICE_OID, "1.2.3.4.5"])
                data = rfc4511.enc_msg(msg)
                self._model_recv(g, data)
                return self._recv_ops(g, rng, data)
            c = policy.client_call(genc, model, illegal_p=0.2, allow_unbind=0.02)
            if c is None:
                return {"k": "drain", "n": None}
            m, a, _ = c
            if model.call_expect(m, a) == "accept":
                model.call_commit(m, a, True, ret=model.last_id + 1)
            return {"k": "call", "m": m, "a": a}
        # server
        if rng.random() < 0.03:
            # an operation the library does not implement (abandon of some small id - possibly one that is in progress on
            # ANOTHER session -, delete, modify, ...): ends this session and must not be felt anywhere else
            mid = g["next_req"]
            g["next_req"] += 1
            msg = policy.byz_raw_op(rng, mid)
            if msg["tag"] == 16:
                msg["body"] = "%02x" % rng.choice([1, 1, 2, 2, 3, 4, mid])
            data = rfc4511.enc_msg(msg)
            self._model_recv(g, data, fatal=True)
            return self._recv_ops(g, rng, data)
        if not model.out or x < 0.6:
            mid = g["next_req"]
            g["next_req"] += 1
            kind = None
            if model.out:
                kind = rng.choice(["SearchRequest", "ExtendedRequest"])
            msg = policy.byz_request(gen, mid, kind)
            if rng.random() < 0.15:
                msg["envelope_name"] = rng.choice([NOTICE_OID, "1.2.3.4.5"])
            bad_text = False
            if msg["t"] == "SearchRequest" and rng.random() < 0.12:
                # text that is not valid UTF-8 (a truncated multi-byte sequence) in a filter's attribute description
                msg["filter"] = {"t": rng.choice(["Present", "Equality"]), "attribute": {"hex": rng.choice(["636166c3", "e282", "80"])}, "value": "61"}
                bad_text = True
            data = rfc4511.enc_msg(msg)
            self._model_recv(g, data, fatal=bad_text, custom=_uses_custom(msg))
            return self._recv_ops(g, rng, data)
        if rng.random() < 0.2:
            m, a, _ = policy.server_any_call(genc, model, p_unbind=0.02)
        else:
            c = policy.server_legal_call(genc, model, p_term=0.02)
            if c is None:
                m, a, _ = policy.server_any_call(genc, model, p_unbind=0.0)
            else:
                m, a = c
                if rng.random() < 0.3:
                    a["code"] = rng.choice(CODES)
        exp = model.call_expect(m, a)
        if exp in ("accept", "either"):
            model.call_commit(m, a, True)
        return {"k": "call", "m": m, "a": a}

    def _recv_ops(self, g, rng, data):
        """One canned delivery; sometimes cut in two so that the session holds a residue while other sessions run
        (the second half is queued and issued as this session's next op)."""
        ba = rng.random() < 0.4
        if len(data) > 4 and rng.random() < 0.3:
            cut = rng.choice([1, 1, 2, rng.randint(1, len(data) - 1), rng.randint(1, len(data) - 1)])
            g["queue"] = [{"k": "recv", "hex": data[cut:].hex(), "ba": ba}]
            return {"k": "recv", "hex": data[:cut].hex(), "ba": ba, "part": 1, "mv": rng.random() < 0.4}
        return {"k": "recv", "hex": data.hex(), "ba": ba}

    def _custom_pdu(self, g, rng):
        """A canned PDU that carries a custom type (whether or not this session has registered it)."""
        model = g["model"]
        gen = Gen(rng, big=0.0, customs=TYPES)
        if g["role"] == "c":
            if not model.out:
                c = ("extended_request", gen.a_extended_request())
                if model.call_expect(*c) == "accept":
                    model.call_commit(c[0], c[1], True, ret=model.last_id + 1)
                    return {"k": "call", "m": c[0], "a": c[1]}
                return {"k": "drain", "n": None}
            mid = policy.pick_sorted(rng, model.out)
            kind = policy.matching_response_kind(rng, model, mid)
            msg = policy.byz_response(gen, mid, kind)
            msg["controls"] = [{"t": "CustomControl", "critical": rng.random() < 0.5, "size": rng.choice([0, 7, 65536])}]
            data = rfc4511.enc_msg(msg)
            self._model_recv(g, data)
            return {"k": "recv", "hex": data.hex(), "custom": "CustomControl"}
        mid = g["next_req"]
        g["next_req"] += 1
        which = rng.choice(TYPES + EXTRA_FILTERS)
        if which == "SubSimple":
            if model.out:
                which = "SubEquality"
            else:
                msg = expected_message("bind", {"dn": "cn=x", "auth": {"t": "SubSimple", "password": rng.choice(["pw", "", "pä"])}}, mid)
        if which == "SubSimple":
            pass
        elif which in EXTRA_FILTERS:
            msg = expected_message("search_request", gen.a_search_request(), mid)
            if which == "SubEquality":
                inner = {"t": "SubEquality", "attribute": "flags", "value": "31"}
            else:
                inner = {"t": "EdgeFilter", "n": int(which[len("EdgeFilter"):]), "value": "v"}
            # sometimes next to the built-in kind it derives from / an ordinary equality filter
            msg["filter"] = rng.choice([inner, {"t": "And", "filters": [{"t": "Equality", "attribute": "cn", "value": "78"}, inner]},
                                        {"t": "Or", "filters": [inner, {"t": "Equality", "attribute": "cn", "value": "78"}]}])
        elif which == "CustomControl":
            msg = policy.byz_request(gen, mid, "ExtendedRequest")
            msg["controls"] = [{"t": "CustomControl", "critical": rng.random() < 0.5, "size": rng.choice([0, 7, 65536])}]
        elif which == "CustomFilter":
            msg = expected_message("search_request", gen.a_search_request(), mid)
            f = {"t": "CustomFilter", "value": "v"}
            for lvl in range(rng.choice([0, 1, 1, 2, 30, 60])):
                f = {"t": "Not", "filter": f} if lvl % 2 else {"t": "And", "filters": [f, {"t": "Present", "attribute": "cn"}]}
            msg["filter"] = f
        else:
            msg = expected_message("bind", gen.a_bind_custom(), mid)
            if model.out:
                msg = expected_message("search_request", gen.a_search_request(), mid)
                msg["filter"] = {"t": "CustomFilter", "value": "w"}
                which = "CustomFilter"
        data = rfc4511.enc_msg(msg)
        fatal = which != "CustomControl" and SLOT[which] not in {SLOT[x] for x in g["regs"]}
        self._model_recv(g, data, fatal=fatal)
        return {"k": "recv", "hex": data.hex(), "custom": which}

    def _model_recv(self, g, data, fatal=False, custom=None):
        model = g["model"]
        if custom:
            fatal = fatal or any(c != "CustomControl" and SLOT[c] not in {SLOT[x] for x in g["regs"]} for c in custom)
        if model.st == "CL":
            return
        if fatal:
            model.closed_by_error()
            return
        try:
            lt = rfc4511.light(data)
        except Exception:  # noqa: BLE001
            model.closed_by_error()
            return
        if model.recv_expect([lt])[0] == "error":
            model.closed_by_error()
        else:
            model.recv_commit([lt], raised=False)

    # ---------------------------------------------------------------- execution

    def step(self, st, op):
        if "s" in op and "k" in op:
            st.x["ops"].append(op)

    def finish(self, st):
        init = st.w.init
        ops = st.x["ops"]
        k = init["nsessions"]
        sessions = [{"role": r} for r in init["roles"]]
        per = {i: [op for op in ops if op["s"] == i] for i in range(k)}
        per = {i: v for i, v in per.items() if v and 0 <= i < k}
        if not per:
            return
        base = {}
        for i, sops in per.items():
            base[str(i)] = _in_child(_transcribe, sessions, sops)[str(i)]
        orders = [ops]
        for ps in init["perm_seeds"]:
            rr = random.Random(ps)
            queues = {i: list(v) for i, v in per.items()}
            merged = []
            style = rr.choice(["uniform", "bursty", "roundrobin"])
            cur = None
            while queues:
                keys = sorted(queues)
                if style == "roundrobin":
                    cur = keys[(keys.index(cur) + 1) % len(keys)] if cur in keys else keys[0]
                elif style == "bursty" and cur in queues and rr.random() < 0.8:
                    pass
                else:
                    cur = rr.choice(keys)
                merged.append(queues[cur].pop(0))
                if not queues[cur]:
                    del queues[cur]
            orders.append(merged)
        h = hashlib.sha256()
        h.update(json.dumps(base, sort_keys=True).encode())
        for oi, order in enumerate(orders):
            got = _in_child(_transcribe, sessions, [op for op in order if op["s"] in per])
            st.hit("interleavings_compared")
            for i in sorted(per):
                a, b = base[str(i)], got[str(i)]
                if a != b:
                    j = next(j for j in range(max(len(a), len(b))) if j >= len(a) or j >= len(b) or a[j] != b[j])
                    raise Violation(P, "transcript-differs/%s" % init["roles"][i], "session %d (%s), op #%d %s: alone -> %s ; interleaved "
                                    "(order %d) -> %s" % (i, init["roles"][i], j, _short(per[i][j] if j < len(per[i]) else None),
                                                          _short(a[j] if j < len(a) else None), oi, _short(b[j] if j < len(b) else None)))
        st.x["digest"] = h.hexdigest()
        # reach / non-triviality from the scripts and baselines
        regs = {i: [op["a"]["type"] for op in v if op["k"] == "reg"] for i, v in per.items()}
        anyreg = any(regs.values())
        unreg_decode = False
        for i, v in per.items():
            seen = set()
            traffic = False
            for j, op in enumerate(v):
                rec = base[str(i)][j]
                if op["k"] == "restart":
                    seen = set()
                    traffic = False
                    continue
                if op["k"] == "reg":
                    if op["a"]["type"] in seen:
                        st.hit("duplicate_registration")
                    if "exc" not in rec:
                        seen.add(op["a"]["type"])
                        if traffic:
                            st.hit("registration_after_traffic")
                elif op["k"] in ("call", "recv"):
                    traffic = True
                if op.get("custom") and rec["state"] != "CLOSED" or (op.get("custom") and "exc" in rec):
                    if SLOT[op["custom"]] in {SLOT[t] for t in seen}:
                        st.hit("custom_pdu_on_registered_session")
                    else:
                        st.hit("custom_pdu_on_unregistered_session")
                        unreg_decode = True
                if op["k"] in ("call", "recv") and any(str(c) in json.dumps(op.get("a", {})) + op.get("hex", "") for c in ()):
                    pass
        for i, v in per.items():
            for op in v:
                if op["k"] == "restart":
                    st.hit("session_restarted")
                if op["k"] == "recv" and ("0404636166c3" in op["hex"] or "8704636166c3" in op["hex"] or "0402e282" in op["hex"] or "8702e282" in op["hex"]):
                    st.hit("invalid_utf8_in_filter_text")
                if op.get("part") and op.get("ba"):
                    st.hit("shared_recv_buffer_with_residue")
                if op["k"] == "recv" and "8a16312e332e36" in op["hex"] or (op["k"] == "recv" and "8a09312e322e33" in op["hex"]):
                    st.hit("envelope_name_on_other_kind")
        oks = []
        for i, v in per.items():
            good = set()
            for j, op in enumerate(v):
                if op["k"] == "reg" and "exc" not in base[str(i)][j]:
                    good.add(op["a"]["type"])
                if op["k"] == "call" and base[str(i)][j].get("exc", [""])[0] == "UnicodeEncodeError":
                    st.hit("send_failed_while_encoding")
            oks.append(good)
        for a in range(len(oks)):
            for b in range(a + 1, len(oks)):
                if any(SLOT[x] == SLOT[y] and x != y for x in oks[a] for y in oks[b]):
                    st.hit("same_id_different_class_on_two_sessions")
        types_by_sess = [set(t for t in v) for v in regs.values()]
        for a in range(len(types_by_sess)):
            for b in range(a + 1, len(types_by_sess)):
                if types_by_sess[a] & types_by_sess[b]:
                    st.hit("same_type_registered_on_two_sessions")
        unk = sum(1 for i, v in per.items() if any(("4096" in json.dumps(op.get("a", {}))) or ("8235" in json.dumps(op.get("a", {}))) for op in v))
        if unk >= 2:
            st.hit("unknown_result_code_on_two_sessions")
        inter = False
        seq = [op["s"] for op in ops]
        for a in range(len(seq) - 2):
            if seq[a] == seq[a + 2] != seq[a + 1]:
                inter = True
        st.x["nontrivial"] = inter and anyreg and unreg_decode
        st.x["kinds"] = [(op["s"], op["k"], op.get("m", op.get("custom", ""))) for op in ops]
        # direct assertions on registration semantics (own canned bytes)
        if self.idx % 10 == 0:
            cb = {
                "CustomControl": {"hex": rfc4511.enc_msg({"t": "ExtendedResponse", "id": 1, "controls": [
                    {"t": "CustomControl", "critical": True, "size": 258}], "name": None, "value": None,
                    "result": {"code": 0, "matched_dn": "", "diag": ""}}).hex(), "size": 258, "critical": True},
                "CustomFilter": {"hex": rfc4511.enc_msg(dict(expected_message("search_request", {}, 1),
                                                            filter={"t": "CustomFilter", "value": "abc"})).hex()},
                "CustomAuth": {"hex": rfc4511.enc_msg(expected_message("bind", {"dn": "", "auth": {
                    "t": "CustomAuth", "username": "u", "password": "p"}}, 1)).hex()},
            }
            problems = _in_child(_registration_semantics, cb)
            st.hit("registration_semantics_checked")
            if problems:
                raise Violation(P, problems[0][0], problems[0][1])

    def digest(self, st):
        return st.x.get("digest", "none")

    def nontrivial(self, st):
        return st.x["nontrivial"]

    def distinct_key(self, st):
        return repr((st.w.init["roles"], st.x["kinds"]))

    def summary(self, st):
        s = super().summary(st)
        s["events"] = len(st.x["ops"])
        return s


class _FakeWorld:
    """C19 never executes library code in the worker process; it only needs a holder for init."""

    def __init__(self, init):
        self.init = init
        self.events = 0
        self.order = []
        self.s = {}

    def digest(self):
        return "none"


def _uses_custom(msg):
    s = json.dumps(msg)
    return [t for t in TYPES if t in s]


def _short(x):
    s = json.dumps(x, sort_keys=True, default=str) if not isinstance(x, str) else x
    return s if len(s) < 500 else s[:500] + "..."
