"""C12 - outgoing bytes are delivered exactly once, in order, however they are drained.

Differential twin: subject S is drained on the PRNG's schedule, twin T (same role, same calls,
same delivered bytes) is drained completely after every event; see DESIGN 5.8.
"""
from __future__ import annotations

from .. import ber, policy, rfc4511
from ..values import Gen, canon_msg, expected_message
from ..world import Violation
from .base import PropBase, St, bucket

P = "C12"

_CALL_TAG = {"bind": 0, "bind_simple": 0, "bind_sasl": 0, "search_request": 3, "extended_request": 23, "unbind": 2,
             "bind_response": 1, "extended_response": 24, "search_result_entry": 4, "search_result_reference": 19,
             "search_result_done": 5}


class C12(PropBase):
    ID = P
    RULE = ("one run = one seeded history of send calls (legal and illegal), deliveries and data_to_send(amount) calls on a "
            "subject session, mirrored on a fully-drained twin; non-trivial = at least one partial drain (0<n<pending) "
            "followed by a further accepted send before the next drain; distinct = the run's sequence of "
            "(pending-size bucket, amount class) pairs plus role")
    ASSUMPTIONS = ["deep copies of a session behave like the session (used to read pending bytes without draining)",
                   "negative drain amounts are outside the statement's domain and are not issued"]
    RUNS = {"quick": 12000, "thorough": 160000}
    STEPS = {"quick": 70, "thorough": 140}
    REQUIRED_CELLS = tuple("amount:%s" % c for c in ("none", "zero", "one", "partial", "exact", "plus1", "huge"))
    REQUIRED_REACH = ("partial_then_send", "drain_zero_with_pending", "refused_call_with_pending", "drain_after_close",
                      "send_failed_while_encoding", "send_on_copy")

    def init_op(self, rng):
        role = "s" if rng.random() < 0.55 else "c"
        customs = rng.choice([[], [], ["EdgeFilter31", "EdgeAuth31"], ["EdgeFilter30", "EdgeAuth32"], ["EdgeFilter127", "EdgeAuth128"],
                              ["EdgeFilter128", "EdgeAuth127"], ["CustomAuth", "CustomControl", "CustomFilter"]])
        return {"op": "init", "customs": customs,
                "sessions": [{"name": "S", "role": role, "register": customs}, {"name": "T", "role": role, "register": customs}],
                "illegal_p": rng.choice([0.0, 0.1, 0.3]), "chunk": rng.choice(["mixed", "mixed", "byte", "whole"]),
                "drain_bias": rng.choice(["mixed", "mixed", "tiny", "lazy"]), "big": rng.choice([0.05, 0.2]),
                "huge": rng.choice([0.0] * 9 + [0.02]), "mega": rng.choice([0.0, 0.0, 0.5]), "first_id": rng.choice([1, 1, 1, 120, 250, 32760, 65530, 2 ** 31 - 40]),
                "bad_text": rng.choice([0.0, 0.0, 0.04]), "style": policy.wire_style(rng)}

    def make(self, init):
        st = St(__import__("simldap.world", fromlist=["World"]).World(init))
        st.x = {"seq": [], "partial_pending": False, "nontrivial": False, "next_req_id": init.get("first_id", 1), "drains": 0}
        return st

    # ------------------------------------------------------------------ policy

    def next_op(self, st, rng):
        op = self._next_op(st, rng)
        if op is not None and op.get("op") == "call" and rng.random() < 0.03:
            return dict(op, op="copy_call")
        return op

    def _next_op(self, st, rng):
        w = st.w
        init = w.init
        S = w.s["S"]
        g = Gen(rng, big=init["big"], bad_text=init.get("bad_text", 0.0), huge=init.get("huge", 0.0), odd_ints=True,
                customs=init.get("customs", ()))
        g.mega = init.get("mega", 0.0)
        model = S.model
        pend = len(w.pending("S"))
        x = rng.random()
        bias = init["drain_bias"]
        p_drain = {"mixed": 0.3, "tiny": 0.45, "lazy": 0.12}[bias]
        # focus amount class by run index so that every class meets its quota
        if x < p_drain:
            cls = None
            if rng.random() < 0.35:
                cls = policy.AMOUNT_CLASSES[(self.idx + st.x["drains"]) % len(policy.AMOUNT_CLASSES)]
            elif bias == "tiny":
                cls = rng.choice(["one", "small", "zero", "mid"])
            n, _ = policy.drain_amount(rng, pend, cls)
            return {"op": "drain", "n": n}
        if S.inbox and x < p_drain + 0.25:
            n = policy.chunk_len(rng, len(S.inbox), init["chunk"])
            bk, scr = policy.buf_kind(rng)
            return {"op": "deliver", "n": n, "buf": bk, "scribble": scr}
        if S.role == "s":
            if x < p_drain + 0.45 or not model.out:
                if model.st == "CL" and rng.random() < 0.7:
                    m, a, _ = policy.server_any_call(g, model)
                    return {"op": "call", "m": m, "a": a}
                mid = st.x["next_req_id"]
                st.x["next_req_id"] += 1
                kind = None
                if model.out and rng.random() < 0.9:
                    kind = rng.choice(["SearchRequest", "ExtendedRequest"])
                return {"op": "inject", "msg": policy.byz_request(g, mid, kind)}
            if rng.random() < init["illegal_p"]:
                m, a, _ = policy.server_any_call(g, model)
                return {"op": "call", "m": m, "a": a}
            c = policy.server_legal_call(g, model, p_term=0.02)
            if c is None:
                m, a, _ = policy.server_any_call(g, model)
                return {"op": "call", "m": m, "a": a}
            return {"op": "call", "m": c[0], "a": c[1]}
        # client subject
        if model.out and x < p_drain + 0.45:
            r = rng.random()
            if r < 0.9:
                mid = policy.pick_sorted(rng, model.out)
                kind = policy.matching_response_kind(rng, model, mid)
            else:
                cls = rng.choice(["completed", "next", "zero"])
                mid = policy.client_id_class_pick(rng, model, cls)
                if mid is None:
                    mid = 0
                kind = rng.choice(policy.RESPONSE_KINDS)
            code = 14 if (kind == "BindResponse" and rng.random() < 0.25) else None
            return {"op": "inject", "msg": policy.byz_response(g, mid, kind, code)}
        c = policy.client_call(g, model, illegal_p=init["illegal_p"])
        if c is None:
            return {"op": "drain", "n": None}
        return {"op": "call", "m": c[0], "a": c[1]}

    # ------------------------------------------------------------------ execution + oracle

    def _twin_drain(self, st):
        T = st.w.s["T"]
        try:
            d = T.real.data_to_send()
        except Exception as e:  # noqa: BLE001
            raise Violation(P, "drain-raised/none", "twin data_to_send() raised %r" % (e,))
        if not isinstance(d, (bytes, bytearray)):
            raise Violation(P, "drain-type/none", "data_to_send() returned %r" % type(d).__name__)
        T.drained.extend(d)
        return bytes(d)

    def _conserve(self, st, where):
        w = st.w
        S, T = w.s["S"], w.s["T"]
        have = bytes(S.drained) + w.pending("S")
        if have != bytes(T.drained):
            i = 0
            a, b = have, bytes(T.drained)
            while i < min(len(a), len(b)) and a[i] == b[i]:
                i += 1
            raise Violation(P, "stream-mismatch", "%s: subject drained+pending (%d bytes) != twin stream (%d bytes); first "
                            "difference at offset %d" % (where, len(a), len(b), i))

    def step(self, st, op):
        w = st.w
        k = op["op"]
        S, T = w.s["S"], w.s["T"]
        if k == "call":
            evs = w.apply(dict(op, who="S"))
            evt = w.apply(dict(op, who="T"))
            if evs.get("noop"):
                return
            e = self._twin_drain(st)
            st.label("call:%s:%s" % (op["m"], "acc" if evs["accepted"] else "ref"))
            if evs["accepted"] != evt["accepted"] or evs["st_after"] != evt["st_after"] or evs["ret"] != evt["ret"]:
                raise Violation(P, "state-depends-on-drain", "call %s: subject accepted=%s state=%s ret=%s, twin accepted=%s "
                                "state=%s ret=%s" % (op["m"], evs["accepted"], evs["st_after"], evs["ret"], evt["accepted"],
                                                      evt["st_after"], evt["ret"]))
            if not evt["accepted"]:
                if e:
                    raise Violation(P, "refused-call-emitted/%s" % op["m"], "refused %s appended %d bytes to the stream" % (
                        op["m"], len(e)))
                if len(S.drained) < len(T.drained):
                    st.hit("refused_call_with_pending")
                if evt.get("arg_error"):
                    st.hit("send_failed_while_encoding")
            else:
                self._one_pdu(op, evt, e)
                if st.x["partial_pending"]:
                    st.x["nontrivial"] = True
                    st.hit("partial_then_send")
            self._conserve(st, "after call %s" % op["m"])
        elif k == "copy_call":
            # the application snapshots the session (copy.deepcopy) and sends on the COPY: none of that may reach the
            # stream of the session itself, and the copy's stream is the session's pending bytes plus at most that one message
            import copy

            from ..values import build_call

            before = w.pending("S")
            try:
                cp = w.clone("S")
                args, kw = build_call(op["m"], op.get("a", {}), {})
            except Exception:  # noqa: BLE001
                return
            try:
                getattr(cp, op["m"])(*args, **kw)
                acc = True
            except Exception:  # noqa: BLE001
                acc = False
            st.label("copy_call:%s" % ("acc" if acc else "ref"))
            st.hit("send_on_copy")
            after = w.pending("S")
            if after != before:
                raise Violation(P, "stream-shared-with-copy", "%s on a deep copy of the session changed the session's own pending bytes "
                                "(%d -> %d)" % (op["m"], len(before), len(after)))
            mine = bytes(copy.deepcopy(cp).data_to_send())
            if mine[: len(before)] != before or (not acc and mine != before):
                raise Violation(P, "stream-shared-with-copy", "the copy's pending bytes (%d) do not start with the %d bytes that were "
                                "pending when it was taken" % (len(mine), len(before)))
            self._conserve(st, "after a send on a copy")
        elif k == "inject":
            w.apply(dict(op, to="S"))
            w.apply(dict(op, to="T"))
            st.label("inject")
        elif k == "deliver":
            evs = w.apply(dict(op, to="S"))
            evt = w.apply(dict(op, to="T", n=len(evs.get("data", b""))))
            if evs.get("noop"):
                return
            e = self._twin_drain(st)
            st.label("deliver:%s" % ("ok" if evs["ok"] else "err"))
            rs = [canon_msg(m) for m in evs["msgs"]] if evs["well_typed"] else None
            rt = [canon_msg(m) for m in evt["msgs"]] if evt["well_typed"] else None
            if evs["ok"] != evt["ok"] or rs != rt or evs["st_after"] != evt["st_after"]:
                raise Violation(P, "state-depends-on-drain", "receive: subject ok=%s state=%s, twin ok=%s state=%s, results %s" % (
                    evs["ok"], evs["st_after"], evt["ok"], evt["st_after"], "equal" if rs == rt else "differ"))
            if e:
                # "... the encodings of exactly those messages whose send call succeeded": a receive is not a send call, whether
                # it returns or raises (an independent reading of C12 agrees: seeded change C12-r4-1)
                raise Violation(P, "receive-emitted", "receive() appended %d bytes to the outgoing stream" % len(e))
            self._conserve(st, "after receive")
        elif k == "drain":
            pend = w.pending("S")
            n = op.get("n")
            if isinstance(n, int) and n < 0:
                return
            st_before = w.s["S"].real.state
            ev = w.apply(dict(op, who="S"))
            cls = policy.amount_class_of(n, len(pend))
            st.cell("amount:%s" % cls)
            st.x["drains"] += 1
            st.x["seq"].append((bucket(len(pend)), cls))
            st.label("drain:%s:%d" % (cls, bucket(len(pend))))
            if ev["exc"] is not None:
                raise Violation(P, "drain-raised/%s" % cls, "data_to_send(%r) raised %s: %s" % (n, ev["exc"]["type"], ev["exc"]["msg"]))
            d = ev["data"]
            if not isinstance(d, bytes):
                raise Violation(P, "drain-type/%s" % cls, "data_to_send(%r) returned %r" % (n, type(d).__name__))
            want = len(pend) if n is None else min(n, len(pend))
            if len(d) != want:
                raise Violation(P, "drain-length/%s" % cls, "data_to_send(%r) with %d pending returned %d bytes, expected %d" % (
                    n, len(pend), len(d), want))
            if d != pend[: len(d)]:
                raise Violation(P, "stream-mismatch", "data_to_send(%r) did not return the head of the pending bytes" % (n,))
            if w.s["S"].real.state != st_before or ev["st_after"] != ev["st_before"]:
                raise Violation(P, "state-depends-on-drain", "data_to_send changed state %s -> %s" % (ev["st_before"], ev["st_after"]))
            if n == 0 and pend:
                st.hit("drain_zero_with_pending")
            if ev["st_after"] == "CLOSED" and pend:
                st.hit("drain_after_close")
            st.x["partial_pending"] = 0 < len(d) < len(pend)
            if not (0 < len(d) < len(pend)) and len(d) == len(pend):
                st.x["partial_pending"] = False
            self._conserve(st, "after data_to_send(%r)" % (n,))
            self._twin_sync_state(st)

    def _twin_sync_state(self, st):
        S, T = st.w.s["S"], st.w.s["T"]
        if S.real.state != T.real.state:
            raise Violation(P, "state-depends-on-drain", "subject state %s, twin state %s" % (S.real.state, T.real.state))

    def _one_pdu(self, op, ev, e):
        m = op["m"]
        units, rest, flag = ber.frame_units(e)
        if len(units) != 1 or rest != len(e) or flag:
            raise Violation(P, "accepted-call-not-one-pdu/%s" % m, "accepted %s appended %d bytes = %d complete PDUs + %d stray "
                            "bytes" % (m, len(e), len(units), len(e) - rest))
        try:
            lt = rfc4511.light(e)
        except ber.Malformed as x:
            raise Violation(P, "accepted-call-not-one-pdu/%s" % m, "emitted PDU unreadable: %s" % x)
        want_id = 0 if m == "unbind" else (ev["ret"] if st_role_client(m) else op["a"].get("id"))
        if lt["tag"] != _CALL_TAG[m] or lt["id"] != want_id:
            raise Violation(P, "accepted-call-wrong-pdu/%s" % m, "accepted %s (id %s) emitted protocolOp %s id %s" % (
                m, want_id, lt["tag"], lt["id"]))
        # "... the encodings of exactly those messages whose send call succeeded": the independent strict decoder must
        # read the very message the call described (value level; the byte-exact form is not prescribed here)
        try:
            got = rfc4511.wire_norm(rfc4511.strict_decode(e))
        except ber.Malformed as x:
            raise Violation(P, "accepted-call-wrong-pdu/%s" % m, "the PDU emitted by %s is not readable by the reference decoder: %s" % (m, x))
        want = rfc4511.wire_norm(expected_message(m, op["a"], want_id))
        if got != want:
            diff = [k for k in sorted(set(got) | set(want)) if got.get(k) != want.get(k)]
            raise Violation(P, "accepted-call-wrong-pdu/%s" % m, "the PDU emitted by %s decodes to a different message than the call "
                            "described; differing fields %s: emitted %s, described %s" % (
                                m, diff, [_sh(got.get(k)) for k in diff], [_sh(want.get(k)) for k in diff]))

    def finish(self, st):
        w = st.w
        S = w.s["S"]
        ev = w.apply({"op": "drain", "who": "S", "n": None})
        if ev["exc"] is not None or not isinstance(ev["data"], bytes):
            raise Violation(P, "drain-raised/none", "final data_to_send() failed: %s" % (ev["exc"],))
        if bytes(S.drained) != bytes(w.s["T"].drained):
            raise Violation(P, "stream-mismatch", "after the final full drain subject stream (%d bytes) != twin stream (%d bytes)" % (
                len(S.drained), len(w.s["T"].drained)))
        again = w.apply({"op": "drain", "who": "S", "n": None})
        if again["data"]:
            raise Violation(P, "stream-mismatch", "bytes repeated: a second full drain returned %d more bytes" % len(again["data"]))

    def nontrivial(self, st):
        return st.x["nontrivial"]

    def distinct_key(self, st):
        return repr((st.w.init["sessions"][0]["role"], st.x["seq"]))


def _sh(x):
    t = repr(x)
    return t if len(t) < 200 else t[:200] + "..."


def st_role_client(m):
    return m in ("bind", "bind_simple", "bind_sasl", "search_request", "extended_request")
