"""C05 - receiving arbitrary bytes either yields messages or fails closed (DESIGN 5.2).

A legal two-party conversation (C11's applications) runs for a while so that the victims are in
B0 / BI / OP with operations in progress and, possibly, a residue; then the wire fault injector
damages bytes sitting in the pipes (structure-aware single-node edits, truncation, garbage,
duplicates, reordering, deep nesting, random blobs) and delivery continues under random
chunking.  Thorough tier adds a systematic sweep: every TLV node of every PDU in flight x every
edit kind x three chunkings, on deep copies of the victim.
"""
from __future__ import annotations

import copy
import random

import sansldap

from .. import ber, faults, policy, rfc4511
from ..rfc4511 import NOTICE_OID
from ..world import Violation, World, exc_info, state_name
from .base import PropBase, St
from .c11 import C11, PEER

P = "C05"

SWEEP_TAGNUMS = list(range(0, 13)) + [30]
# every filter kind once, so that a sweep touches every CHOICE of the filter grammar
RICH_FILTER = {"t": "And", "filters": [
    {"t": "Or", "filters": [{"t": "Equality", "attribute": "cn", "value": "61"}, {"t": "ApproxMatch", "attribute": "cn", "value": "62"}]},
    {"t": "Not", "filter": {"t": "Present", "attribute": "objectClass"}},
    {"t": "Substrings", "attribute": "sn", "initial": "69", "any": ["6161", "62"], "final": "66"},
    {"t": "GreaterOrEqual", "attribute": "uidNumber", "value": "31"}, {"t": "LessOrEqual", "attribute": "uidNumber", "value": "39"},
    {"t": "ExtensibleMatch", "rule": "2.5.13.5", "attribute": "cn", "value": "78", "dn_attributes": True}]}
SWEEP_HOWS = {
    "len_edit": ["+1", "-1", "0", "huge", "long1", "long4", "leading0", "indef", "ff", "lol127"],
    "inner_len_edit": ["+1", "+5", "x2", "long4_big"],
    "tag_edit": ["class", "number", "neighbour", "constructed", "hightag", "hightag_trunc", "zero", "hightag1"],
}


def check_response(role, resp):
    """e.response must be one well-formed notice of disconnection (server) / unbind (client)."""
    if resp is None:
        return None
    if not isinstance(resp, (bytes, bytearray)):
        return "response is %s, not bytes" % type(resp).__name__
    try:
        m = rfc4511.strict_decode(bytes(resp))
    except ber.Malformed as e:
        return "not one well-formed PDU: %s (%s)" % (e, bytes(resp)[:40].hex())
    if role == "s":
        if m["t"] != "ExtendedResponse":
            return "server attached a %s, not an ExtendedResponse" % m["t"]
        if m["id"] != 0:
            return "notice of disconnection must carry message id 0, got %d" % m["id"]
        if m.get("name") != NOTICE_OID:
            return "responseName is %r, not the notice of disconnection OID" % (m.get("name"),)
    else:
        if m["t"] != "UnbindRequest":
            return "client attached a %s, not an UnbindRequest" % m["t"]
    return None


def outcome(sess, data):
    """Perform sess.receive(data) and describe the outcome like World._op_deliver does."""
    ev = {"st_before": state_name(sess)}
    try:
        msgs = sess.receive(data)
        ev.update(ok=True, msgs=msgs, exc=None, exc_response=None)
    except Exception as e:  # noqa: BLE001
        resp = getattr(e, "response", None)
        ev.update(ok=False, msgs=None, exc=exc_info(e), exc_response=resp)
    ev["st_after"] = state_name(sess)
    return ev


def fail_closed(sess, role, ev, where):
    """The C05 oracle for one receive() outcome `ev` on live session object `sess`."""
    if ev["st_before"] == "CLOSED":
        # input on an already closed session: must be refused with the protocol error
        if ev["ok"]:
            raise Violation(P, "accepts-input-after-error/%s" % role, "%s: receive on a CLOSED session returned %r" % (where, ev["msgs"]))
        if not ev["exc"]["proto"]:
            raise Violation(P, "foreign-exception/%s" % ev["exc"]["type"], "%s: receive on a CLOSED session raised %s: %s" % (
                where, ev["exc"]["type"], ev["exc"]["msg"]))
        if ev["st_after"] != "CLOSED":
            raise Violation(P, "not-closed-after-error/%s" % role, "%s: state left CLOSED -> %s" % (where, ev["st_after"]))
        return
    if ev["ok"]:
        msgs = ev["msgs"]
        if not isinstance(msgs, list) or not all(isinstance(m, sansldap.LDAPMessage) for m in msgs):
            raise Violation(P, "bad-return-type/%s" % role, "%s: receive returned %r" % (where, type(msgs).__name__))
        return
    if not ev["exc"]["proto"]:
        raise Violation(P, "foreign-exception/%s" % ev["exc"]["type"], "%s: receive raised %s (%s) instead of ProtocolError; state %s" % (
            where, ev["exc"]["type"], ev["exc"]["msg"], ev["st_after"]))
    if ev["st_after"] != "CLOSED":
        raise Violation(P, "not-closed-after-error/%s" % role, "%s: ProtocolError raised (%s) but state is %s" % (
            where, ev["exc"]["msg"], ev["st_after"]))
    bad = check_response(role, ev["exc_response"])
    if bad:
        raise Violation(P, "response-not-wellformed/%s" % role, "%s: %s" % (where, bad))
    # refuses further input, empty or not, and stays closed
    for more in (b"", b"\x30\x0c\x02\x01\x01\x60\x07\x02\x01\x03\x04\x00\x80\x00"):
        ev2 = outcome(sess, more)
        if ev2["ok"]:
            raise Violation(P, "accepts-input-after-error/%s" % role, "%s: after the ProtocolError a further receive(%d bytes) returned %r" % (
                where, len(more), ev2["msgs"]))
        if not ev2["exc"]["proto"]:
            raise Violation(P, "foreign-exception/%s" % ev2["exc"]["type"], "%s: receive after the error raised %s" % (where, ev2["exc"]["type"]))
        if ev2["st_after"] != "CLOSED":
            raise Violation(P, "not-closed-after-error/%s" % role, "%s: state left CLOSED after a further receive" % where)


class C05(PropBase):
    ID = P
    LEVEL = "fault_enumeration"
    RULE = ("one run = a seeded legal client/server conversation that is damaged on the wire at a seeded moment (fault kinds in "
            "faults_fired: single-node tag/length/content edits, zero-length primitives, node delete/duplicate/swap, truncations, "
            "re-framed interior damage, stream truncation, garbage, random blobs, PDU duplication/reordering, filters nested up to 5000 "
            "deep) and then delivered under random chunking to client and server sessions in every state, including closed ones; thorough "
            "tier sweeps every TLV node of every PDU in flight x every edit kind x 3 chunkings on deep copies of the victim; non-trivial = "
            "the fault changed at least one byte that was delivered to a non-closed session; distinct = (fault kind, node type hit, victim role, "
            "victim state, outcome class) tuples")
    ASSUMPTIONS = ["returned messages are not compared with anything (damaged bytes may decode to a different valid message)",
                   "presence of ProtocolError.response is not required (the statement says 'when present')",
                   "the primitive/constructed bit of the UnbindRequest attached to client errors is not asserted (C03's subject; 62 00 is pinned "
                   "by tests/test_controls.py)",
                   "custom types registered for the run raise ValueError on malformed values (harness types, not library code)"]
    RUNS = {"quick": 40000, "thorough": 160000}
    STEPS = {"quick": 90, "thorough": 140}
    REQUIRED_REACH = ("error_with_residue", "error_with_ops_outstanding", "zero_len_integer_delivered", "deep_nest_over_limit",
                      "response_forwarded_and_recognised", "bytes_to_closed_session", "victim_client", "victim_server",
                      "victim_B0", "victim_BI", "victim_OP", "damaged_still_decodes")
    REQUIRED_CELLS = tuple("fault:%s" % k for k in faults.NODE_KINDS_RAW + faults.INTERIOR + faults.PDU_KINDS)

    def __init__(self, tier="quick"):
        super().__init__(tier)
        self.c11 = C11(tier)

    def begin_run(self, idx, seed):
        super().begin_run(idx, seed)
        self.c11.begin_run(idx, seed)

    def init_op(self, rng):
        init = self.c11.init_op(rng)
        for s in init["sessions"]:
            s["predict"] = False
        kinds = faults.NODE_KINDS_RAW + faults.INTERIOR + faults.PDU_KINDS
        init.update(personality="uniform", term_p=0.0, quiesce_every=10 ** 9, odd_ints=False, huge=0.0,
                    fault_after=rng.choice([0, 1, 3, 6, 10, 16, 25, 40]), nfaults=rng.choice([1, 1, 1, 2, 4]),
                    focus=kinds[self.idx % len(kinds)],
                    sweep=(self.idx % 256 == 0) if self.tier == "thorough" else (self.idx % 2000 == 0),
                    sweep_seed=rng.getrandbits(32))
        return init

    def make(self, init):
        w = World(init)
        st = St(w)
        st.x = {"units": {"c": [], "s": []}, "consumed": {"c": 0, "s": 0}, "appended": {"c": 0, "s": 0}, "faults_done": 0,
                "damaged_ranges": {"c": [], "s": []}, "cells": set(), "nontrivial": False, "events": 0, "swept": False,
                "torn": {"c": False, "s": False}, "pending_fault_kind": {"c": [], "s": []}}
        # the embedded C11 engine keeps its own bookkeeping in st.x too
        c11x = self.c11.make({"op": "init", "sessions": []}).x
        for k, v in c11x.items():
            st.x.setdefault(k, v)
        return st

    # ------------------------------------------------------------------ policy

    def next_op(self, st, rng):
        w = st.w
        x = st.x
        init = w.init
        x["events"] += 1
        # forward e.response of a victim that just failed (what a real application does)
        for who in ("c", "s"):
            se = w.s[who]
            if isinstance(se.err_response, bytes) and rng.random() < 0.8:
                return {"op": "forward_response", "from": who}
        if x["events"] > init["fault_after"] and x["faults_done"] < init["nfaults"]:
            op = self._fault_op(st, rng)
            if op is not None:
                return op
        r = rng.random()
        # legal conversation + transport (drains always complete so that pipes hold whole PDUs)
        if r < 0.3:
            op = self.c11._app_op(st, rng, rng.choice(["c", "s"]))
            if op is not None:
                return op
        if r < 0.55:
            who = rng.choice(["c", "s"])
            return {"op": "drain", "who": who, "n": None}
        tos = [n for n in ("c", "s") if w.s[n].inbox]
        if tos:
            to = rng.choice(tos)
            n = policy.chunk_len(rng, len(w.s[to].inbox), init["chunk"])
            if len(w.s[to].inbox) > 200000:
                n = rng.choice([len(w.s[to].inbox), len(w.s[to].inbox) // 2 + 1, len(w.s[to].inbox) - 1])  # giant units travel in big pieces
            bk, scr = policy.buf_kind(rng)
            return {"op": "deliver", "to": to, "n": n, "buf": bk, "scribble": scr}
        if rng.random() < 0.3:
            # bytes towards a session whatever its state (closed ones included)
            to = rng.choice(["c", "s"])
            return {"op": "inject", "to": to, "hex": bytes(rng.getrandbits(8) for _ in range(rng.choice([1, 2, 7, 30]))).hex(), "raw": True}
        op = self.c11._app_op(st, rng, rng.choice(["c", "s"]))
        return op or {"op": "drain", "who": rng.choice(["c", "s"]), "n": None}

    def _eligible(self, st, to):
        x = st.x
        return [i for i, u in enumerate(x["units"][to]) if u[0] >= x["consumed"][to]]

    def _fault_op(self, st, rng):
        w = st.w
        x = st.x
        focus = w.init["focus"]
        tos = [n for n in ("c", "s") if self._eligible(st, n)]
        if focus in ("random_blob", "insert_garbage", "deep_nest", "byz_message", "giant_pending", "request_flood") and not tos:
            tos = ["c", "s"]
        if not tos:
            return None
        to = rng.choice(tos)
        el = self._eligible(st, to)
        kind = focus if rng.random() < 0.7 else rng.choice(faults.NODE_KINDS_RAW + faults.INTERIOR + faults.PDU_KINDS)
        if kind in faults.PDU_KINDS:
            f = {"kind": kind}
            if kind == "truncate_stream":
                if not el:
                    return None
                u = x["units"][to][rng.choice(el)]
                f["at"] = rng.randint(u[0] + 1, max(u[0] + 1, u[1] - 1)) - x["consumed"][to]
            elif kind == "insert_garbage":
                f["pdu"] = rng.choice(el) if el else 0
                f["hex"] = bytes(rng.getrandbits(8) for _ in range(rng.choice([1, 2, 3, 9, 40]))).hex()
            elif kind == "random_blob":
                n = rng.choice([1, 2, 5, 20, 100, 400])
                mode = rng.random()
                if mode < 0.5:
                    blob = bytes(rng.getrandbits(8) for _ in range(n))
                else:
                    blob = b"\x30" + bytes([rng.choice([0x03, 0x10, 0x7F, 0x81, 0x82, 0x84])]) + bytes(rng.getrandbits(8) for _ in range(n))
                f["hex"] = blob.hex()
            elif kind in ("pdu_duplicate", "pdu_reorder"):
                if not el:
                    return None
                f["pdu"] = rng.choice(el)
            elif kind == "byz_message":
                # well-formed but wrong: request towards a client, response towards a server, unknown id, unbind, notice
                from ..values import Gen

                g = Gen(rng, big=0.05)
                r = rng.random()
                mid = rng.choice([0, 1, 2, 3, 50])
                if r < 0.08:
                    # an operation the library does not implement (abandon of its own / another id, delete, modify, ...)
                    f["msg"] = policy.byz_raw_op(rng, mid)
                elif r < 0.4:
                    f["msg"] = policy.byz_request(g, mid, rng.choice(["BindRequest", "SearchRequest", "ExtendedRequest", "UnbindRequest"]))
                elif r < 0.9:
                    f["msg"] = policy.byz_response(g, mid, rng.choice(policy.RESPONSE_KINDS), notice=False)
                else:
                    f["msg"] = policy.byz_response(g, mid, "ExtendedResponse", notice=True)
                if "result" in f["msg"] and rng.random() < 0.3:
                    # a long diagnostic text with multi-byte characters at every alignment (limits / truncation in error paths)
                    f["msg"]["result"] = dict(f["msg"]["result"])
                    f["msg"]["result"]["diag"] = "a" * rng.choice([0, 1, 2, 3]) + rng.choice(["é", "名", "😀", "{node=%s} {0}"]) * rng.choice([300, 480, 512, 700, 1100])
                elif rng.random() < 0.35:
                    # text fields that are not valid UTF-8 (latin-1 byte, lone continuation byte, truncated sequence)
                    bad = {"hex": rng.choice(["e9", "80", "c3", "f09f98", "41ff42", "eda080"])}
                    msg = f["msg"]
                    slots = []
                    if "result" in msg:
                        slots += [("result", "diag"), ("result", "matched_dn")]
                    for k2 in ("object_name", "base"):
                        if k2 in msg:
                            slots.append((None, k2))
                    if msg["t"] == "BindRequest":
                        slots.append((None, "name"))
                    if slots:
                        a1, b1 = rng.choice(slots)
                        if a1:
                            msg[a1] = dict(msg[a1])
                            msg[a1][b1] = bad
                        else:
                            msg[b1] = bad
                        f["bad_utf8"] = True
            elif kind == "giant_pending":
                # one unit that announces (and delivers) more pending bytes than common buffer limits: 64 KiB, 256 KiB, 16 MiB
                f["announce"] = rng.choice([2 ** 31 - 1, 2 ** 28, 2 ** 25])
                f["send"] = rng.choice([65536 + 9] * 4 + [262144 + 9] * 4 + [2 ** 24 - 9, 2 ** 24 + 9])
            elif kind == "request_flood":
                # a peer that pipelines more operations than any sensible server keeps open at once (never answered here)
                if rng.random() < 0.9:
                    return None  # keep this expensive kind rare
                to = "s"
                f["n"] = rng.choice([1001, 1025, 1100, 2049])
                f["first"] = rng.choice([100000, 100000, 7])
            elif kind == "deep_nest":
                f["depth"] = rng.choice([10, 50, 150, 300, 500, 1000, 2000, 5000])
                f["shape"] = rng.choice(["not", "andor", "envelope"])
                f["form"] = rng.choice([None, 2, 4])
                f["mid"] = rng.choice([1, 2, 5, 900])
            return {"op": "fault", "to": to, "f": f}
        if not el:
            return None
        for _ in range(8):
            k = rng.choice(el)
            u = x["units"][to][k]
            pdu = bytes(w.s[to].inbox[u[0] - x["consumed"][to] : u[1] - x["consumed"][to]])
            f = faults.choose(rng, pdu, "raw")
            if f is None:
                continue
            if f["kind"] != kind and rng.random() < 0.6:
                # steer towards the focus kind
                f2 = None
                for _ in range(6):
                    f2 = faults.choose(rng, pdu, "raw")
                    if f2 is not None and f2["kind"] == kind:
                        f = f2
                        break
            new = faults.apply(pdu, f)
            if new is None or new == pdu:
                continue
            return {"op": "fault", "to": to, "pdu": k, "f": f}
        return None

    # ------------------------------------------------------------------ execution

    def _append_units(self, st, to, data, damaged=False):
        """Record the PDU extents of well-formed bytes appended to the pipe towards `to`."""
        x = st.x
        base = x["appended"][to]
        units, rest, flag = ber.frame_units(data)
        if flag is None and rest == len(data):
            for a, b in units:
                x["units"][to].append([base + a, base + b])
        x["appended"][to] += len(data)

    def step(self, st, op):
        w = st.w
        x = st.x
        k = op["op"]
        if k == "call":
            if st.x.get("faults_done") and (w.s[op["who"]].real.state.name == "CLOSED"):
                return
            self._legal_call(st, op)
        elif k == "drain":
            who = op.get("who")
            if who not in w.s:
                return
            ev = w.apply(dict(op, n=None))
            d = ev.get("data") or b""
            if x["torn"][who]:
                # connection torn down: what is drained goes nowhere
                peer = w.s[PEER[who]]
                del peer.inbox[len(peer.inbox) - len(d):]
            elif d:
                self._append_units(st, PEER[who], d)
            st.label("drain:%s" % who)
        elif k == "inject":
            to = op.get("to")
            if to not in w.s:
                return
            ev = w.apply(op)
            if not ev.get("noop"):
                x["appended"][to] += len(ev["data"])
                x["damaged_ranges"][to].append((x["appended"][to] - len(ev["data"]), x["appended"][to], "raw_bytes"))
                st.label("inject:%s" % to)
        elif k == "forward_response":
            frm = op.get("from")
            if frm not in w.s:
                return
            ev = w.apply(op)
            if not ev.get("noop"):
                self._append_units(st, PEER[frm], ev["data"])
                x["torn"][frm] = True
                x["forwarded"] = PEER[frm]
                st.label("forward:%s" % frm)
        elif k == "fault":
            self._fault(st, op)
        elif k == "deliver":
            self._deliver(st, op)

    def _legal_call(self, st, op):
        w = st.w
        se = w.s.get(op.get("who"))
        if se is None:
            return
        m, a = op["m"], op.get("a", {})
        exp = se.model.call_expect(m, a) if (se.role == "c" or m == "unbind" or isinstance(a.get("id"), int)) else None
        if exp not in ("accept", "refuse"):
            return
        if exp == "refuse":
            st.hit("refused_attempt")
        ev = w.apply(op)
        if ev.get("noop"):
            return
        st.label("call:%s:%s" % (op["who"], m))
        if ev["accepted"] and op["who"] == "c" and m != "unbind":
            st.x["ids"].append(ev["ret"])

    def _fault(self, st, op):
        w = st.w
        x = st.x
        to = op.get("to")
        se = w.s.get(to)
        f = op.get("f") or {}
        kind = f.get("kind")
        if se is None or kind is None:
            return
        cons = x["consumed"][to]
        units = x["units"][to]
        changed = None

        def shift(from_abs, delta):
            for u in units:
                if u[0] >= from_abs:
                    u[0] += delta
                    u[1] += delta
            x["appended"][to] += delta

        if kind in faults.PDU_KINDS:
            if kind == "truncate_stream":
                at = f.get("at", 0)
                if 0 <= at < len(se.inbox):
                    del se.inbox[at:]
                    x["appended"][to] = cons + at
                    x["units"][to] = [u for u in units if u[1] <= cons + at]
                    x["torn"][PEER[to]] = True
                    changed = (cons + at, cons + at)
            elif kind in ("insert_garbage",):
                el = self._eligible(st, to)
                pos = units[f["pdu"]][0] if f.get("pdu") in el else x["appended"][to]
                g = bytes.fromhex(f.get("hex", "00"))
                se.inbox[pos - cons : pos - cons] = g
                shift(pos, len(g))
                changed = (pos, pos + len(g))
            elif kind == "random_blob":
                g = bytes.fromhex(f.get("hex", "00"))
                pos = x["appended"][to]
                se.inbox.extend(g)
                x["appended"][to] += len(g)
                changed = (pos, pos + len(g))
            elif kind == "pdu_duplicate":
                k = f.get("pdu")
                if k in self._eligible(st, to):
                    a, b = units[k]
                    raw = bytes(se.inbox[a - cons : b - cons])
                    se.inbox[b - cons : b - cons] = raw
                    shift(b, len(raw))
                    units.insert(k + 1, [b, b + len(raw)])
                    changed = (b, b + len(raw))
            elif kind == "pdu_reorder":
                k = f.get("pdu")
                el = self._eligible(st, to)
                if k in el and (k + 1) in el and units[k][1] == units[k + 1][0]:
                    a, b = units[k]
                    c, d = units[k + 1]
                    raw1 = bytes(se.inbox[a - cons : b - cons])
                    raw2 = bytes(se.inbox[c - cons : d - cons])
                    se.inbox[a - cons : d - cons] = raw2 + raw1
                    units[k] = [a, a + len(raw2)]
                    units[k + 1] = [a + len(raw2), d]
                    changed = (a, d)
            elif kind == "giant_pending":
                g = b"\x30\x84" + int(f.get("announce", 2 ** 25)).to_bytes(4, "big") + b"\x02\x01\x01" + bytes(int(f.get("send", 65536)))
                pos = x["appended"][to]
                se.inbox.extend(g)
                x["appended"][to] += len(g)
                changed = (pos, pos + len(g))
            elif kind == "request_flood":
                first = int(f.get("first", 100000))
                g = b"".join(rfc4511.enc_msg({"t": "ExtendedRequest", "id": first + i, "controls": [], "name": "1.1", "value": None})
                             for i in range(int(f.get("n", 1001))))
                pos = x["appended"][to]
                se.inbox.extend(g)
                x["appended"][to] += len(g)
                changed = (pos, pos + len(g))
            elif kind == "byz_message":
                try:
                    g = rfc4511.enc_msg(f["msg"])
                except Exception:  # noqa: BLE001
                    return
                pos = x["appended"][to]
                se.inbox.extend(g)
                x["appended"][to] += len(g)
                changed = (pos, pos + len(g))
            elif kind == "deep_nest":
                depth = int(f.get("depth", 10))
                shape = f.get("shape")
                mid = f.get("mid", 1)
                if shape == "not":
                    g = rfc4511.deep_not_search(mid, depth, f.get("form"))
                elif shape == "andor":
                    g = rfc4511.deep_and_search(mid, depth, f.get("form"))
                else:
                    g = rfc4511.deep_controls_response(mid, depth)
                pos = x["appended"][to]
                se.inbox.extend(g)
                x["appended"][to] += len(g)
                changed = (pos, pos + len(g))
                if depth >= 1000:
                    x["deep_over"] = True
        else:
            k = op.get("pdu")
            if k not in self._eligible(st, to):
                return
            a, b = units[k]
            pdu = bytes(se.inbox[a - cons : b - cons])
            new = faults.apply(pdu, f)
            if new is None or new == pdu:
                return
            se.inbox[a - cons : b - cons] = new
            units[k] = [a, a + len(new)]
            if len(new) != len(pdu):
                delta = len(new) - len(pdu)
                for u in units[k + 1 :]:
                    u[0] += delta
                    u[1] += delta
                x["appended"][to] += delta
            changed = (a, a + len(new))
            root, order = faults.parse(pdu)
            node = order[f["node"]] if isinstance(f.get("node"), int) and f["node"] < len(order) else None
            x["last_node_kind"] = node.kind() if node is not None else "-"
            if node is not None and f["kind"].startswith("zero_len") and node.cls == 0 and node.num in (2, 10):
                x["zero_int"] = True
        if changed is None:
            return
        x["faults_done"] += 1
        x["damaged_ranges"][to].append((changed[0], changed[1], kind))
        st.label("fault:%s" % kind)
        w.note({"op": "fault", "to": to, "kind": kind})

    def _deliver(self, st, op):
        w = st.w
        x = st.x
        to = op.get("to")
        se = w.s.get(to)
        if se is None:
            return
        was_state = state_name(se.real)
        mst = {"BEFORE_OPEN": "B0", "BINDING": "BI", "OPENED": "OP", "CLOSED": "CL"}.get(was_state, "?")
        start = x["consumed"][to]
        ev = w.apply(op)
        if ev.get("noop"):
            return
        n = len(ev["data"])
        x["consumed"][to] += n
        end = start + n
        st.label("deliver:%s:%s" % (to, "ok" if ev["ok"] else "err"))
        hit = [d for d in x["damaged_ranges"][to] if d[0] < end and d[1] >= start and (d[1] > start or d[0] == d[1])]
        role = se.role
        if was_state == "CLOSED":
            st.hit("bytes_to_closed_session")
        else:
            for d in hit:
                if n:
                    x["nontrivial"] = True
                    st.fault(d[2])
                    st.cell("fault:%s" % d[2])
                    st.hit("victim_client" if role == "c" else "victim_server")
                    st.hit("victim_%s" % mst)
                    oc = "ok" if ev["ok"] else ("proto" if ev["exc"]["proto"] else ev["exc"]["type"])
                    x["cells"].add((d[2], x.get("last_node_kind", "-"), role, mst, oc))
                    if ev["ok"] and d[1] <= end:
                        st.hit("damaged_still_decodes")
                    if x.get("zero_int"):
                        st.hit("zero_len_integer_delivered")
                    if x.get("deep_over") and d[2] == "deep_nest":
                        st.hit("deep_nest_over_limit")
        if not ev["ok"] and was_state != "CLOSED":
            units_before = [u for u in x["units"][to] if u[1] <= start]
            last_end = units_before[-1][1] if units_before else 0
            if start - last_end > 0:
                st.hit("error_with_residue")
            if se.model.out:
                st.hit("error_with_ops_outstanding")
            if x.get("forwarded") == to and ev["exc"]["proto"]:
                rq = ev.get("exc_obj_request")
                if rq is not None and type(rq).__name__ in ("UnbindRequest", "ExtendedResponse"):
                    st.hit("response_forwarded_and_recognised")
        ev2 = {"st_before": was_state, "st_after": ev["st_after"], "ok": ev["ok"], "msgs": ev["msgs"], "exc": ev["exc"],
               "exc_response": ev["exc_response"]}
        fail_closed(se.real, role, ev2, "delivery of %d bytes to the %s in state %s" % (n, "client" if role == "c" else "server", was_state))
        # keep the reference model roughly in step for the legal applications (best effort, no verdicts)
        if ev["ok"] and ev["well_typed"]:
            for m in ev["msgs"]:
                try:
                    lt = {"kind": type(m).__name__, "id": int(m.message_id), "code": None, "name": getattr(m, "name", None)}
                    if hasattr(m, "result"):
                        lt["code"] = int(getattr(m.result.result_code, "value", 0))
                    se.model._recv_one(lt)
                except Exception:  # noqa: BLE001
                    pass
        elif not ev["ok"]:
            se.model.closed_by_error()

    # ------------------------------------------------------------------ systematic sweep (thorough)

    def finish(self, st):
        w = st.w
        # whatever is still in the pipes is delivered in one piece
        for to in ("c", "s"):
            if w.s[to].inbox:
                self._deliver(st, {"op": "deliver", "to": to, "n": None})
        if not w.init.get("sweep") or st.x["swept"]:
            return
        st.x["swept"] = True
        self._sweep(st)

    def _sweep(self, st):
        """Every TLV node of every PDU of a fresh legal exchange x every edit kind x 3 chunkings,
        each on a deep copy of a victim prepared by this run's conversation prefix."""
        w = st.w
        rr = random.Random(w.init["sweep_seed"])
        from ..values import Gen, expected_message

        g = Gen(rr, big=0.1, customs=w.init["customs"])
        for role in ("s", "c"):
            fresh = sansldap.LDAPServer() if role == "s" else sansldap.LDAPClient()
            from .c02 import _register

            _register(fresh, w.init["customs"])
            pdus = []
            if role == "s":
                rich = g.a_search_request()
                rich["filter"] = RICH_FILTER
                rich["controls"] = [{"t": "Paged", "critical": True, "size": 100, "cookie": "c0ffee"}, {"t": "ShowDeleted", "critical": False}]
                rich["attributes"] = ["cn", "*"]
                for mid, (m, a) in enumerate([("search_request", rich), ("extended_request", g.a_extended_request()),
                                              g.a_bind_any()], 1):
                    pdus.append(rfc4511.enc_msg(expected_message(m, a, mid)))
            else:
                ids = []
                try:
                    ids.append(fresh.search_request())
                    ids.append(fresh.extended_request("1.2.3"))
                    fresh.data_to_send()
                except Exception:  # noqa: BLE001
                    continue
                pdus.append(rfc4511.enc_msg(expected_message("search_result_entry", g.a_entry(ids[0]), ids[0])))
                pdus.append(rfc4511.enc_msg(expected_message("search_result_done", g.a_done(ids[0]), ids[0])))
                pdus.append(rfc4511.enc_msg(expected_message("extended_response", g.a_extended_response(ids[1], None), ids[1])))
            for pi, pdu in enumerate(pdus):
                if role == "s" and pi == 2:
                    victim0 = sansldap.LDAPServer()
                    _register(victim0, w.init["customs"])
                else:
                    victim0 = fresh
                root, order = faults.parse(pdu)
                for ni, node in enumerate(order):
                    variants = []
                    for kind in faults.NODE_KINDS_RAW + faults.INTERIOR:
                        base = {"kind": kind, "node": ni}
                        hows = SWEEP_HOWS.get(kind[: -9] if kind.endswith("_reframed") else kind)
                        if kind == "inner_len_shrink":
                            hows = ["-1", "0"]
                        if kind == "control_value_damage":
                            if ni != 0:
                                continue
                            hows = ["empty", "short", "absent", "not_sequence", "inner_overrun"]
                        if hows:
                            for h in hows:
                                if h == "number":
                                    for tn in SWEEP_TAGNUMS:
                                        variants.append(dict(base, how=h, val=tn))
                                elif h == "neighbour":
                                    for dl in (-2, -1, 1, 2, 3):
                                        variants.append(dict(base, how=h, delta=dl))
                                elif h == "hightag1":
                                    for tn in (31, 36, 37, 38, 127):
                                        variants.append(dict(base, how=h, val1=tn))
                                else:
                                    variants.append(dict(base, how=h, val=rr.randrange(256)))
                        elif kind == "content_edit":
                            for pos, val in ((0, 0x00), (0, 0xFF), (max(0, node.ln - 1), 0x80)):
                                variants.append(dict(base, pos=pos, val=val, mode="set"))
                        elif kind.startswith("content_truncate"):
                            variants.append(dict(base, keep=0))
                            variants.append(dict(base, keep=max(0, node.ln - 1)))
                        elif kind.startswith("children_truncate"):
                            variants.append(dict(base, keep=0))
                            variants.append(dict(base, keep=max(0, len(node.children) - 1)))
                        else:
                            variants.append(base)
                    for f in variants:
                        new = faults.apply(pdu, f)
                        if new is None or new == pdu:
                            continue
                        st.fault(f["kind"])
                        st.hit("sweep_cases")
                        cutpoint = min(len(new) - 1, max(1, node.off + 1))
                        chunkings = [[new], [new[:cutpoint], new[cutpoint:]]]
                        if self.tier == "thorough":
                            chunkings.append([new[i:i + 1] for i in range(len(new))])
                        for chunks in chunkings:
                            victim = copy.deepcopy(victim0)
                            for ch in chunks:
                                ev = outcome(victim, ch)
                                fail_closed(victim, role, ev, "sweep: %s on node %d (%s) of %s PDU #%d, %d chunks" % (
                                    f, ni, node.kind(), "request" if role == "s" else "response", pi, len(chunks)))
                                if not ev["ok"]:
                                    break

    def nontrivial(self, st):
        return st.x["nontrivial"]

    def distinct_key(self, st):
        return repr(sorted(st.x["cells"]))
