"""C02 - message reassembly is independent of how the byte stream is chunked (DESIGN 5.1).

A prepared session (prior history: requests in progress on a client, optional completed bind on
a server) receives a stream of well-formed messages under a PRNG-chosen chunking (subject) and
in one delivery (twin).  Fault kind: buffer_reuse (the caller scribbles over its mutable input
buffer after receive returns).  Plus a systematic sweep over every single cut offset (and
sampled pairs of offsets) on deep copies of the prepared subject.
"""
from __future__ import annotations

import copy
import random

import sansldap

from .. import ber, policy, rfc4511
from ..values import Gen, build_call, canon_msg, expected_message, norm
from ..world import Violation, World, state_name
from .base import PropBase, St

P = "C02"


def _register(sess, customs):
    from .. import customtypes as ct

    for typ in customs:
        getattr(sess, ct.REGISTER_METHOD[typ])(ct.BY_NAME[typ])


def _do(sess, m, a):
    args, kw = build_call(m, a)
    return getattr(sess, m)(*args, **kw)


def _preroll(client, server, n):
    """`n` minimal extended operations, each answered at once (by `server` if given, else by a canned response)."""
    for _ in range(n):
        mid = client.extended_request("1.1")
        data = client.data_to_send()
        if server is not None:
            server.receive(data)
            server.extended_response(mid)
            resp = server.data_to_send()
        else:
            resp = rfc4511.enc_msg({"t": "ExtendedResponse", "id": mid, "controls": [], "name": None, "value": None,
                                    "result": {"code": 0, "matched_dn": "", "diag": ""}})
        client.receive(resp)


class C02(PropBase):
    ID = P
    RULE = ("one run = one prepared session (client with requests in progress, or server, optionally after a completed bind) + one "
            "stream of 1-12 well-formed messages (library-encoded or encoded by the independent encoder with 4-octet outer lengths) "
            "delivered under a seeded chunking (empty chunks, single bytes, cuts inside headers, several PDUs per chunk; bytes / "
            "bytearray / memoryview, mutable buffers overwritten after the call) and compared with a single-delivery twin; plus "
            "every single cut offset of the stream (and sampled offset pairs) replayed on deep copies; non-trivial = at least 2 PDUs, at least one "
            "cut strictly inside a PDU and at least one chunk containing the end of one PDU and the start of the next; distinct = multiset of "
            "(cut position class: in tag / in length / in content / at boundary) x PDU kinds")
    ASSUMPTIONS = ["streams contain no terminating message and nothing the session refuses (the statement speaks of what receive returns)",
                   "the twin must accept the stream in one delivery and reproduce the values sent, otherwise the case is a codec/lifecycle "
                   "matter (C01/C04/C08) and is discarded and counted",
                   "deep copies of a prepared session behave like the session"]
    RUNS = {"quick": 1600, "thorough": 16000}
    BATCH = 8
    STEPS = {"quick": 400, "thorough": 400}
    REQUIRED_REACH = ("cut_in_longform_length", "residue_across_3_calls", "empty_chunk_with_residue", "three_pdus_completed_with_residue",
                      "memoryview_input", "scribbled_after_call", "cut_in_tag_or_first_len", "pdu_boundary_inside_chunk",
                      "sweep_single_cuts", "sweep_pair_cuts", "client_subject", "server_subject", "four_octet_outer_length",
                      "sixty_plus_pdus_in_one_call", "two_unknown_result_codes_in_stream", "stream_over_256KiB",
                      "flag_control_with_and_without_value", "other_session_between_chunks", "duplicate_request_ids_in_stream",
                      "five_plus_length_octets", "recursion_edge_probe", "thousand_pdus_in_one_call", "bind_v2_then_pipelined")

    # ------------------------------------------------------------------ generation of prepared session + stream

    def init_op(self, rng):
        try:
            return self._init_op(rng)
        except Exception as e:  # noqa: BLE001 - the library is used to prepare the case; a failure here is not a verdict
            return {"op": "init", "role": "s", "customs": [], "prep": [], "stream": "", "expected": [], "own_enc": False,
                    "style": "mixed", "sweep_seed": 0, "gen_error": repr(e),
                    "sessions": [{"name": "S", "role": "s", "predict": False}, {"name": "T", "role": "s", "predict": False}]}

    def _init_op(self, rng):
        role = "c" if rng.random() < 0.5 else "s"
        customs = [t for t in ("CustomAuth", "CustomControl", "CustomFilter") if rng.random() < 0.25]
        big = rng.choice([0.05, 0.2, 0.4])
        huge = rng.choice([0.0, 0.0, 0.0, 0.02])
        g = Gen(rng, big=big, huge=huge, customs=customs)
        g.odd_known = rng.random() < 0.5
        prep = []
        expected = []
        own_enc = rng.random() < 0.3  # stream encoded by the independent encoder (a foreign, conforming peer)
        own_style = rng.choice([("outer4", None, None), ("outer4", None, None), ("ad", 4, None), ("long", 2, 1), ("all4", 4, 4),
                                ("long5", 5, None), ("long8", 8, 5)])
        npdu = rng.choice([1, 2, 2, 3, 3, 4, 5, 6, 8, 12])
        giant = False
        if rng.random() < 0.012:
            npdu = rng.choice([4, 5, 6])  # few PDUs, each about 64 KiB: a stream of more than 256 KiB in one delivery
            g = Gen(rng, big=1.0, huge=0.6, customs=customs, rich=False)
        elif rng.random() < 0.008 and not getattr(self, "LIGHT_STREAMS", False):
            npdu = rng.choice([16, 24, 32])  # several MiB of ordinary (64 KiB-field) messages: far beyond any sensible per-MESSAGE limit
            g = Gen(rng, big=1.0, huge=0.6, customs=customs, rich=False)
            giant = True
        elif rng.random() < 0.006:
            npdu = rng.choice([1023, 1024, 1025, 1100])  # more complete messages in one receive() than any sensible per-call cap
            big, huge = 0.0, 0.0
            g = Gen(rng, big=0.0, huge=0.0, customs=customs, rich=False)
        elif rng.random() < 0.04:
            npdu = rng.choice([63, 64, 65, 70, 100, 130])  # many small messages completed by one receive() call
            big, huge = 0.0, 0.0
            g = Gen(rng, big=0.0, huge=0.0, customs=customs, rich=False)
        stream = b""
        if role == "s":
            helper = sansldap.LDAPClient()
            _register(helper, customs)
            if rng.random() < 0.3:
                m, a = g.a_bind_any()
                mid = _do(helper, m, a)
                prep.append({"kind": "deliver", "hex": helper.data_to_send().hex()})
                prep.append({"kind": "call", "m": "bind_response", "a": g.a_bind_response(mid, 0)})
                helper.receive(rfc4511.enc_msg({"t": "BindResponse", "id": mid, "controls": [], "sasl_creds": None,
                                                "result": {"code": 0, "matched_dn": "", "diag": ""}}))
            msgs = []
            for _ in range(npdu):
                if npdu >= 1000:
                    m, a = "extended_request", {"name": "1.1"}  # as small as requests get
                elif rng.random() < 0.55:
                    m, a = "search_request", g.a_search_request()
                else:
                    m, a = "extended_request", g.a_extended_request()
                mid = _do(helper, m, a)
                msgs.append(expected_message(m, a, mid))
            lib_stream = helper.data_to_send()
            if own_enc and not prep and rng.random() < 0.25:
                # a foreign client that pipelines further requests right behind its bind (any protocol version)
                bind = expected_message("bind_simple", {"dn": rng.choice(["", "cn=é"]), "password": rng.choice(["", "pw", "pä"])}, max(m["id"] for m in msgs) + 1)
                bind["version"] = rng.choice([2, 3, 3])
                msgs.insert(0, bind)
            if own_enc and len(msgs) >= 2 and rng.random() < 0.25:
                # a (foreign) client that reuses the id of a request still in progress: well-formed all the same
                j = rng.randrange(1, len(msgs))
                msgs[j] = dict(msgs[j], id=msgs[rng.randrange(0, j)]["id"])
            expected = msgs
            stream = _own(msgs, own_style) if own_enc else lib_stream
        else:
            helper = sansldap.LDAPServer()
            shadow = sansldap.LDAPClient()
            _register(helper, customs)
            _register(shadow, customs)
            reqs = []
            if rng.random() < 0.1:
                # a client that has been in use for a while: its ids need two (or, rarely, three) octets
                age = rng.choice([126, 254, 255, 300]) if rng.random() < 0.97 or getattr(self, "LIGHT_STREAMS", False) else 32766
                prep.append({"kind": "preroll", "n": age})
                _preroll(shadow, helper, age)
            if rng.random() < 0.25 and npdu < 1000:
                m, a = g.a_bind_any()
                mid = _do(shadow, m, a)
                prep.append({"kind": "call", "m": m, "a": a})
                reqs.append((mid, "BindRequest"))
            else:
                if npdu >= 1000:
                    mid = _do(shadow, "search_request", {})
                    prep.append({"kind": "call", "m": "search_request", "a": {}})
                    reqs.append((mid, "SearchRequest"))
                for _ in range(rng.choice([1, 2, 3, 4])):
                    if rng.random() < 0.6:
                        m, a = "search_request", g.a_search_request()
                    else:
                        m, a = "extended_request", g.a_extended_request()
                    mid = _do(shadow, m, a)
                    prep.append({"kind": "call", "m": m, "a": a})
                    reqs.append((mid, "SearchRequest" if m == "search_request" else "ExtendedRequest"))
            helper.receive(shadow.data_to_send())
            live = {mid: k for mid, k in reqs}
            msgs = []
            while live and len(msgs) < npdu:
                mid = rng.choice(sorted(live))
                k = live[mid]
                if k == "BindRequest":
                    m, a = "bind_response", g.a_bind_response(mid, 14 if rng.random() < 0.3 else None)
                    del live[mid]
                elif k == "ExtendedRequest":
                    m, a = "extended_response", g.a_extended_response(mid)
                    if a.get("name") == rfc4511.NOTICE_OID:
                        a["name"] = None
                    del live[mid]
                else:
                    x = rng.random()
                    remaining_slots = npdu - len(msgs)
                    if npdu >= 1000 and remaining_slots > len(live) + 1:
                        m, a = "search_result_entry", {"id": mid, "object_name": "", "attributes": []}
                    elif x < 0.5 or remaining_slots > len(live) + 1:
                        m, a = ("search_result_entry", g.a_entry(mid)) if rng.random() < 0.7 else ("search_result_reference", g.a_reference(mid))
                    else:
                        m, a = "search_result_done", g.a_done(mid)
                        del live[mid]
                _do(helper, m, a)
                msgs.append(expected_message(m, a, mid))
            expected = msgs
            lib_stream = helper.data_to_send()
            stream = _own(msgs, own_style) if own_enc else lib_stream
        return {"op": "init", "role": role, "customs": customs, "prep": prep, "stream": stream.hex(),
                "expected": [norm(x) for x in expected], "own_enc": own_enc,
                "style": "head_rest" if giant else rng.choice(["mixed", "mixed", "byte", "header", "coalesce", "mixed", "mixed", "byte", "header", "coalesce", "head_rest"]),
                "sweep_seed": rng.getrandbits(32),
                "debug_logging": rng.random() < 0.3, "interlope": rng.choice([0.0, 0.0, 0.15]), "misuse": rng.choice([0.0, 0.0, 0.0, 0.1]),
                "sessions": [{"name": "S", "role": role, "register": customs, "predict": False},
                             {"name": "T", "role": role, "register": customs, "predict": False}]}

    def make(self, init):
        w = World(init)
        st = St(w)
        S, T = w.s["S"], w.s["T"]
        stream = bytes.fromhex(init["stream"])
        x = st.x = {"units": [], "kinds": [], "snap_full": [],"stream": stream, "discard": None, "off": 0, "snap": [], "cuts": [], "calls_with_residue": 0,
                    "chunks": 0, "boundary_inside": False, "cut_inside": False, "twin": None, "prepared": None, "cands": []}
        if init.get("gen_error"):
            x["discard"] = "case generation failed: %s" % init["gen_error"]
            return st
        # prior history on both copies
        try:
            for p in init["prep"]:
                for se in (S, T):
                    if p["kind"] == "call":
                        _do(se.real, p["m"], p["a"])
                    elif p["kind"] == "preroll":
                        _preroll(se.real, None, p["n"])
                    else:
                        se.real.receive(bytes.fromhex(p["hex"]))
                    se.real.data_to_send()
        except Exception as e:  # noqa: BLE001
            x["discard"] = "preparation failed: %r" % (e,)
            return st
        x["prepared"] = copy.deepcopy(S.real)
        units, rest, _flag = ber.frame_units(stream)
        if rest != len(stream) or len(units) != len(init["expected"]):
            x["discard"] = "stream does not frame into the expected PDUs"
            return st
        # twin: one delivery; and a third copy fed PDU by PDU (values snapshotted when returned)
        tw_vals = u_vals = None
        try:
            tw = T.real.receive(stream)
            tw_vals = [norm(canon_msg(m)) for m in tw]
        except Exception as e:  # noqa: BLE001
            tw_err = "%s: %s" % (type(e).__name__, e)
        try:
            U = copy.deepcopy(x["prepared"])
            u_vals = []
            for a, b in units:
                for m in U.receive(stream[a:b]):
                    u_vals.append(norm(canon_msg(m)))
        except Exception:  # noqa: BLE001
            u_vals = None
        exp = init["expected"]
        if tw_vals is None and u_vals is None:
            x["discard"] = "the session refuses this stream however it is delivered (codec / lifecycle matter)"
            return st
        if tw_vals is None and u_vals == exp:
            x["defer"] = ("single-delivery-differs", "delivering the %d PDUs one per call returns exactly the messages sent, delivering the "
                          "same %d bytes in one call raises %s" % (len(units), len(stream), tw_err))
        elif tw_vals is not None and tw_vals != exp and u_vals == exp:
            i = next(i for i in range(max(len(tw_vals), len(exp))) if i >= len(tw_vals) or i >= len(exp) or tw_vals[i] != exp[i])
            x["defer"] = ("single-delivery-differs", "delivering the %d PDUs one per call returns exactly the messages sent, a single "
                          "delivery returns a different message #%d: %s instead of %s" % (
                              len(units), i, _short(tw_vals[i]) if i < len(tw_vals) else "nothing", _short(exp[i]) if i < len(exp) else "nothing"))
        elif tw_vals is not None and tw_vals != exp:
            st.flags["codec_mismatch"] = 1  # every delivery decodes something else than was sent: C01/C04's matter, chunking still compared
        x["twin"] = tw_vals if tw_vals is not None else u_vals
        if x.get("defer"):
            x["twin"] = u_vals  # the single delivery is the deviating one: the per-PDU delivery serves as reference
        if x["twin"] is None or len(x["twin"]) != len(units):
            x["discard"] = "reference delivery returned %s messages for %d PDUs" % (None if x["twin"] is None else len(x["twin"]), len(units))
            return st
        x["units"] = units
        x["kinds"] = [m["t"] for m in x["twin"]]
        x["cands"] = sorted({m["id"] for m in x["twin"]} | {1, 2, 3, max([m["id"] for m in x["twin"]] + [0]) + 1})
        S.inbox.extend(stream)
        if init["role"] == "c":
            st.hit("client_subject")
        else:
            st.hit("server_subject")
        if init.get("own_enc"):
            st.hit("four_octet_outer_length")
        if len(units) >= 60:
            st.hit("sixty_plus_pdus_in_one_call")
        if len(units) > 1024:
            st.hit("thousand_pdus_in_one_call")
        if init["expected"] and init["expected"][0].get("t") == "BindRequest" and init["expected"][0].get("version") == 2 and len(units) > 1:
            st.hit("bind_v2_then_pipelined")
        if len(stream) > 262144:
            st.hit("stream_over_256KiB")
        ids = [m["id"] for m in init["expected"]]
        if init["role"] == "s" and len(set(ids)) < len(ids):
            st.hit("duplicate_request_ids_in_stream")
        if len(stream) > 2 and stream[1] in (0x85, 0x88):
            st.hit("five_plus_length_octets")
        flagvals = {}
        for m in init["expected"]:
            for c in m.get("controls") or []:
                if c.get("t") == "Control" and c.get("type") in ("1.2.840.113556.1.4.417", "1.2.840.113556.1.4.2065"):
                    flagvals.setdefault((c["type"], c["critical"]), set()).add(c["value"])
                elif c.get("t") in ("ShowDeleted", "ShowDeactivatedLink"):
                    oid = "1.2.840.113556.1.4.417" if c["t"] == "ShowDeleted" else "1.2.840.113556.1.4.2065"
                    flagvals.setdefault((oid, c["critical"]), set()).add(None)
        if any(len(v) >= 2 for v in flagvals.values()):
            st.hit("flag_control_with_and_without_value")
        codes = {m["result"]["code"] for m in init["expected"] if "result" in m and m["result"]["code"] not in values_known()}
        if len(codes) >= 2:
            st.hit("two_unknown_result_codes_in_stream")
        return st

    # ------------------------------------------------------------------ policy

    def next_op(self, st, rng):
        x = st.x
        if x["discard"] or x.get("defer"):
            return None
        S = st.w.s["S"]
        avail = len(S.inbox)
        if avail == 0:
            return None
        style = st.w.init["style"]
        off = x["off"]
        if style == "byte":
            n = 1 if rng.random() < 0.9 else 0
        elif style == "header":
            # cut inside the header of the PDU that starts at/after the current offset
            nxt = [a for a, b in x["units"] if a >= off]
            if nxt:
                try:
                    _c, _k, _n, hl, _ln = ber.read_header(x["stream"], nxt[0])
                except Exception:  # noqa: BLE001
                    hl = 2
                n = max(0, nxt[0] + rng.randint(1, max(1, hl)) - off)
                if rng.random() < 0.3:
                    n = rng.randint(0, avail)
            else:
                n = avail
        elif style == "head_rest":
            # a short first read (a few octets of the first header) and then everything else in ONE delivery
            n = rng.choice([1, 2, 3, 5, 7]) if off == 0 else avail
        elif style == "coalesce":
            ends = [b for a, b in x["units"] if b > off]
            k = rng.choice([1, 2, 3])
            tgt = ends[min(k, len(ends)) - 1] if ends else off + avail
            n = tgt - off + rng.choice([0, 1, 2, 3, 5])
        else:
            n = policy.chunk_len(rng, avail, "mixed")
        n = max(0, min(n, avail))
        if st.w.init.get("interlope") and rng.random() < st.w.init["interlope"]:
            return {"op": "interlope", "id": rng.choice([1, 5, 300])}
        if st.w.init.get("misuse") and rng.random() < st.w.init["misuse"]:
            # an application bug between two reads: receive() is called with something that is not bytes-like
            return {"op": "misuse", "kind": rng.choice(["str", "none", "float", "object"])}
        bk, scr = policy.buf_kind(rng)
        return {"op": "deliver", "n": n, "buf": bk, "scribble": scr}

    # ------------------------------------------------------------------ step + oracle

    def _cut_class(self, st, off):
        x = st.x
        for i, (a, b) in enumerate(x["units"]):
            if off == a or off == b:
                return "boundary", i
            if a < off < b:
                try:
                    _c, _k, num, hl, _ln = ber.read_header(x["stream"], a)
                except Exception:  # noqa: BLE001
                    return "content", i
                idl = 1  # identifier octets (SEQUENCE -> 1)
                if off - a <= idl:
                    return "tag", i
                if off - a < hl:
                    return "length", i
                return "content", i
        return "boundary", len(x["units"])

    def step(self, st, op):
        if op["op"] == "interlope" and not st.x["discard"]:
            # another, unrelated session of the same process handles a complete message between two chunks of the subject
            other = sansldap.LDAPServer()
            probe = rfc4511.enc_msg({"t": "ExtendedRequest", "id": int(op.get("id", 1)), "controls": [], "name": "1.3.6.1.4.1.1466.20037",
                                     "value": None})
            try:
                r = other.receive(probe)
                okk = isinstance(r, list) and len(r) == 1
                why = "returned %r" % (r,)
            except Exception as e:  # noqa: BLE001
                okk, why = False, "raised %s: %s" % (type(e).__name__, e)
            st.hit("other_session_between_chunks")
            if not okk:
                raise Violation(P, "other-session-disturbed", "a fresh server session that received one complete ExtendedRequest while the "
                                "subject held %d undelivered-to-application bytes %s" % (st.x["off"] - self._completed_end(st, st.x["off"]), why))
            return
        if op["op"] == "misuse" and not st.x["discard"]:
            st.w.misuse_receive("S", op.get("kind"))
            st.hit("misuse_between_chunks")
            return
        if op["op"] != "deliver":
            return
        x = st.x
        if x["discard"]:
            return
        w = st.w
        S = w.s["S"]
        if not S.inbox and op.get("n"):
            return
        residue_before = x["off"] - self._completed_end(st, x["off"])
        ev = w.apply(dict(op, to="S"))
        if ev.get("noop"):
            return
        n = len(ev["data"])
        start = x["off"]
        x["off"] += n
        x["chunks"] += 1
        st.label("deliver:%s" % ("empty" if n == 0 else "data"))
        if not ev["ok"]:
            raise Violation(P, "raised", "receive(%d bytes at stream offset %d) raised %s: %s" % (n, start, ev["exc"]["type"], ev["exc"]["msg"]))
        if not ev["well_typed"]:
            raise Violation(P, "raised", "receive returned %r" % (type(ev["msgs"]).__name__,))
        # reach probes
        if residue_before > 0:
            x["calls_with_residue"] += 1
            if x["calls_with_residue"] >= 3:
                st.hit("residue_across_3_calls")
            if n == 0:
                st.hit("empty_chunk_with_residue")
            if len(ev["msgs"]) >= 3:
                st.hit("three_pdus_completed_with_residue")
        else:
            x["calls_with_residue"] = 0
        if op.get("buf") == "memoryview":
            st.hit("memoryview_input")
        if ev.get("scribbled"):
            st.hit("scribbled_after_call")
            st.fault("buffer_reuse")
        if n:
            cls, i = self._cut_class(st, x["off"])
            if x["off"] < len(x["stream"]):
                x["cuts"].append((cls, x["kinds"][i] if i < len(x["kinds"]) else "end"))
                st.cell("cut:%s" % cls)
                if cls != "boundary":
                    x["cut_inside"] = True
                if cls == "length":
                    a = x["units"][i][0]
                    if x["stream"][a + 1] & 0x80 and x["off"] - a >= 2:
                        st.hit("cut_in_longform_length")
                if cls in ("tag", "length"):
                    st.hit("cut_in_tag_or_first_len")
            if any(start < b < x["off"] for a, b in x["units"]):
                x["boundary_inside"] = True
                st.hit("pdu_boundary_inside_chunk")
        # snapshots of what was just returned
        for m in ev["msgs"]:
            x["snap"].append(norm(canon_msg(m)))
            x["snap_full"].append(_full(m))
        got = x["snap"]
        tw = x["twin"]
        done = sum(1 for a, b in x["units"] if b <= x["off"])
        if len(got) > done:
            raise Violation(P, "returned-before-complete", "%d messages returned but only %d PDUs have been delivered completely "
                            "(stream offset %d)" % (len(got), done, x["off"]))
        if got != tw[: len(got)]:
            i = next(i for i in range(len(got)) if i >= len(tw) or got[i] != tw[i])
            key = "not-a-prefix"
            if i < len(tw) and got[i] in tw:
                key = "not-a-prefix/duplicated-or-reordered"
            raise Violation(P, key, "after %d chunks (offset %d) message #%d returned is %s, single delivery gives %s" % (
                x["chunks"], x["off"], i, _short(got[i]), _short(tw[i]) if i < len(tw) else "nothing"))

    def _completed_end(self, st, off):
        ends = [b for a, b in st.x["units"] if b <= off]
        return ends[-1] if ends else 0

    def finish(self, st):
        x = st.x
        if x.get("defer"):
            raise Violation(P, x["defer"][0], x["defer"][1])
        if x["discard"]:
            st.flags["discarded"] = 1
            return
        w = st.w
        S, T = w.s["S"], w.s["T"]
        if S.inbox:
            self.step(st, {"op": "deliver", "n": len(S.inbox), "buf": "bytes"})
        got = x["snap"]
        if got != x["twin"]:
            raise Violation(P, "overall-mismatch", "all %d bytes delivered in %d chunks: %d messages returned, single delivery returns %d" % (
                len(x["stream"]), x["chunks"], len(got), len(x["twin"])))
        for k, (lst, snap) in enumerate(S.returned_lists):
            if len(lst) != len(snap) or any(a is not b for a, b in zip(lst, snap)):
                raise Violation(P, "returned-value-mutated", "the list returned by receive() call #%d held %d messages when it was returned and "
                                "holds %d now (a later receive changed a value the caller already had)" % (k, len(snap), len(lst)))
        now = [_full(m) for m in S.returned_objs]
        if now != x["snap_full"]:
            i = next(i for i in range(len(now)) if now[i] != x["snap_full"][i])
            x["snap"] = x["snap_full"]
            raise Violation(P, "returned-value-mutated", "message #%d changed after it was returned (later deliveries / buffer reuse): was %s, "
                            "is now %s" % (i, _short(x["snap"][i]), _short(now[i])))
        if self.idx % 97 == 0:
            self._recursion_edge(st)
        self._kinds = {m["id"]: m["t"] for m in st.w.init["expected"]} if st.w.init["role"] == "s" else {}
        self._same_end_state(S.real, T.real, x["cands"], st.w.init["role"], "chunked delivery")
        self._sweep(st)

    def _same_end_state(self, a, b, cands, role, what):
        if state_name(a) != state_name(b):
            raise Violation(P, "state-differs", "%s leaves state %s, single delivery leaves %s" % (what, state_name(a), state_name(b)))
        for mid in cands:
            kind = self._kinds.get(mid)
            pa, pb = _probe(a, role, mid, kind), _probe(b, role, mid, kind)
            if pa != pb:
                raise Violation(P, "in-progress-differs", "%s: id %d is %s, after a single delivery it is %s" % (
                    what, mid, "in progress" if pa else "not in progress", "in progress" if pb else "not in progress"))

    def _sweep(self, st):
        """Every single cut offset (and sampled pairs) on deep copies of the prepared subject."""
        x = st.x
        stream = x["stream"]
        n = len(stream)
        role = st.w.init["role"]
        T = st.w.s["T"].real
        budget = 150000 if self.tier == "quick" else 1500000  # bytes re-parsed per stream, keeps huge streams affordable
        limit = max(40, min(300 if self.tier == "quick" else 5000, budget // max(1, n)))
        if len(x["units"]) >= 30:
            limit = min(limit, 60 if self.tier == "quick" else 600)  # parse cost is per message here, not per byte
        if len(x["units"]) >= 1000:
            limit = 6 if self.tier == "quick" else 40
        if n < 2:
            return
        offs = list(range(1, n))
        rr = random.Random(st.w.init["sweep_seed"])
        if len(offs) > limit:
            hdr = set()
            for a, b in x["units"]:
                for k in range(1, 8):
                    if a + k < n:
                        hdr.add(a + k)
                hdr.add(b - 1)
            if len(hdr) > limit:
                hdr = set(rr.sample(sorted(hdr), limit))
            offs = sorted(hdr | set(rr.sample(offs, limit)))
        for k in offs:
            self._cut_run(st, [k], T, role)
            st.hit("sweep_single_cuts")
        pairs = max(5, min(30 if self.tier == "quick" else 400, budget // max(1, 3 * n)))
        if len(x["units"]) >= 30:
            pairs = min(pairs, 10 if self.tier == "quick" else 100)
        if len(x["units"]) >= 1000:
            pairs = 2
        for _ in range(pairs):
            if n < 3:
                break
            a = rr.randint(1, n - 2)
            b = rr.randint(a + 1, min(n - 1, a + rr.choice([1, 2, 3, 8, 40, n])))
            self._cut_run(st, [a, b], T, role)
            st.hit("sweep_pair_cuts")

    def _recursion_edge(self, st):
        """The deepest filter nesting a fresh server accepts must not depend on the chunking: find it for a single delivery
        (bisection) and compare with two-chunk and byte-sized deliveries at that depth and one beyond."""
        def accepted(depth, style):
            srv = sansldap.LDAPServer()
            pdu = rfc4511.deep_not_search(1, depth)
            if style == "single":
                chunks = [pdu]
            elif style == "two":
                chunks = [pdu[:7], pdu[7:]]
            elif style == "tail":
                chunks = [pdu[:-1], pdu[-1:]]
            else:
                chunks = [pdu[: len(pdu) // 2], pdu[len(pdu) // 2:]]
            got = []
            try:
                for ch in chunks:
                    got.extend(srv.receive(ch))
            except sansldap.ProtocolError:
                return False
            return len(got) == 1

        def deeper(k, depth, style):
            # the same question asked from k frames further down the caller's stack (one nesting level of a filter costs the
            # library several frames, so the edge has to be approached from more than one caller depth)
            return accepted(depth, style) if k == 0 else deeper(k - 1, depth, style)

        lo, hi = 8, 4000
        while lo < hi:
            mid = (lo + hi + 1) // 2
            if accepted(mid, "single"):
                lo = mid
            else:
                hi = mid - 1
        st.hit("recursion_edge_probe")
        for extra in range(0, 8):
          for depth in (lo - 1, lo, lo + 1):
            ref = deeper(extra, depth, "single")
            for style in ("two", "tail", "half"):
                if deeper(extra, depth, style) != ref:
                    raise Violation(P, "single-delivery-differs", "a SearchRequest whose filter is nested %d deep (at the edge of what the "
                                    "interpreter stack allows, %d extra caller frames) is %s when delivered in one call and %s when "
                                    "delivered in two calls (%s)" % (depth, extra, "accepted" if ref else "refused",
                                                                     "refused" if ref else "accepted", style))

    def _cut_run(self, st, cuts, T, role):
        x = st.x
        stream = x["stream"]
        sub = copy.deepcopy(x["prepared"])
        got = []
        prev = 0
        try:
            for k in cuts + [len(stream)]:
                got.extend(sub.receive(stream[prev:k]))
                prev = k
        except Exception as e:  # noqa: BLE001
            raise Violation(P, "raised", "cuts at %s of a %d-byte stream: receive raised %s: %s" % (cuts, len(stream), type(e).__name__, e))
        got = [norm(canon_msg(m)) for m in got]
        if got != x["twin"]:
            raise Violation(P, "overall-mismatch", "cuts at %s of a %d-byte stream: %d messages returned, single delivery returns %d%s" % (
                cuts, len(stream), len(got), len(x["twin"]), "" if len(got) != len(x["twin"]) else " (values differ)"))
        if state_name(sub) != state_name(T):
            raise Violation(P, "state-differs", "cuts at %s: state %s, single delivery %s" % (cuts, state_name(sub), state_name(T)))

    def nontrivial(self, st):
        x = st.x
        return not x["discard"] and len(x.get("units", [])) >= 2 and x["cut_inside"] and x["boundary_inside"]

    def distinct_key(self, st):
        return repr(sorted(st.x["cuts"]))

    def simplify(self, head, body, fails):
        return body


def values_known():
    from ..values import KNOWN_CODES

    return set(KNOWN_CODES) | {5, 6, 14, 17, 18, 19, 20, 21, 33, 36, 52, 54, 64, 65, 66, 67, 68, 69, 71}


def _own(msgs, own_style):
    _name, cf, pf = own_style
    with ber.style(cf, pf):
        return b"".join(rfc4511.enc_msg(x, outer_form=max(4, cf or 0)) for x in msgs)


def _full(m):
    """canon + what canon deliberately leaves out: raw value of every control, name/value of the result code."""
    out = norm(canon_msg(m))
    raw = []
    for c in (getattr(m, "controls", None) or []):
        v = getattr(c, "value", None)
        raw.append([type(c).__name__, bytes(v).hex() if isinstance(v, (bytes, bytearray, memoryview)) else v])
    out["_raw_controls"] = raw
    if hasattr(m, "result"):
        rc = m.result.result_code
        out["_code"] = [getattr(rc, "name", None), int(getattr(rc, "value", -1))]
    return out


def _probe(sess, role, mid, kind=None):
    cp = copy.deepcopy(sess)
    try:
        if role == "s" and kind == "SearchRequest" and state_name(cp) == "OPENED":
            cp.search_result_entry(mid, "", [])
            return True
        if role == "s" and kind == "ExtendedRequest" and state_name(cp) == "OPENED":
            cp.extended_response(mid)
            return True
        if role == "c":
            data = rfc4511.enc_msg({"t": "BindResponse", "id": mid, "controls": [],
                                    "result": {"code": 14, "matched_dn": "", "diag": ""}, "sasl_creds": None})
            r = cp.receive(data)
            return isinstance(r, list) and len(r) == 1
        cp.bind_response(mid, result_code=sansldap.LDAPResultCode.SASL_BIND_IN_PROGRESS)
        return True
    except Exception:  # noqa: BLE001
        return False


def _short(m):
    s = repr(m)
    return s if len(s) < 300 else s[:300] + "..."
