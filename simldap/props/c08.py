"""C08 - session lifecycle follows the documented state machine; CLOSED is final (DESIGN 5.4).

Real client + real server joined by pipes, adversarial applications (legal and illegal calls),
byzantine messages spliced into either pipe, and a post-closure phase; every event is compared
with the executable reference model.
"""
from __future__ import annotations

from .. import policy
from ..rfc4511 import NOTICE_OID
from ..values import Gen
from ..world import Diverged, Violation, World
from .base import PropBase, St

P = "C08"

CLIENT_CALLS = [("bind_simple", {}), ("bind_sasl", {"mechanism": "EXTERNAL"}), ("search_request", {}),
                ("extended_request", {"name": "1.3.6.1.4.1.1466.20037"}), ("unbind", {})]


def server_calls(mid):
    return [("bind_response", {"id": mid}), ("bind_response", {"id": mid, "code": 14}), ("extended_response", {"id": mid}),
            ("extended_response", {"id": mid, "name": NOTICE_OID}),
            ("search_result_entry", {"id": mid, "object_name": "", "attributes": []}),
            ("search_result_reference", {"id": mid, "uris": ["ldap://x"]}), ("search_result_done", {"id": mid}),
            ("unbind", {})]


class C08(PropBase):
    ID = P
    RULE = ("one run = one seeded joint history of a real client and a real server joined by simulated pipes: legal and illegal "
            "application calls on both sides, chunked deliveries, byzantine well-formed messages spliced into either pipe "
            "(responses to the server, requests to the client, bind while operations are outstanding, notice of disconnection, "
            "unbind), followed by a post-closure phase trying every call and receive on closed sessions; non-trivial = at least "
            "one refused call or post-closure call and at least two distinct model states visited; distinct = set of (event kind, model "
            "state before, accepted?) trigrams of the run")
    ASSUMPTIONS = ["the reference model is a reading of the SessionState docstring, API docstrings and the statement of C08",
                   "BEFORE_OPEN may become OPENED on a refused call (pinned by tests/test_session.py)",
                   "whether a server accepts a non-bind request while BINDING is not stated: either outcome is followed",
                   "drains are always complete here (partial drains are C12's subject) so that splices land on PDU boundaries"]
    RUNS = {"quick": 10000, "thorough": 150000}
    STEPS = {"quick": 90, "thorough": 180}
    REQUIRED_REACH = ("client_bind_while_busy", "server_got_bind_while_busy", "client_send_while_BI", "server_send_while_BI",
                      "sasl_round_then_rebind", "bind_response_refused_while_BI", "client_closed_calls", "server_closed_calls",
                      "receive_after_closure", "closed_by_unbind", "closed_by_notice", "closed_by_protocol_error",
                      "search_outstanding_then_bind_c", "search_outstanding_then_bind_s", "request_while_server_BI",
                      "client_bind_completed", "client_bind_completed_nonzero_code", "invalid_payload_delivered")
    REQUIRED_CELLS = tuple("closed/c/%s" % m for m, _ in CLIENT_CALLS) + tuple(
        "closed/s/%s" % m for m in ("bind_response", "extended_response", "search_result_entry", "search_result_reference",
                                    "search_result_done", "unbind")) + tuple(
        "BI/c/%s" % m for m in ("bind_simple", "search_request", "extended_request", "unbind")) + tuple(
        "BI/s/%s" % m for m in ("bind_response", "extended_response", "search_result_entry", "search_result_reference",
                                "search_result_done", "unbind"))

    def init_op(self, rng):
        return {"op": "init", "sessions": [{"name": "c", "role": "c", "peer": "s"}, {"name": "s", "role": "s", "peer": "c"}],
                "observe_pending": True, "follow": True, "real_stream": True, "invalid_units": True, "illegal_p": rng.choice([0.05, 0.2, 0.5]), "byz_p": rng.choice([0.0, 0.0, 0.02, 0.06]),
                "chunk": rng.choice(["whole", "mixed", "mixed", "byte"]), "term_p": rng.choice([0.0, 0.0, 0.01, 0.04]),
                "max_out": rng.choice([1, 2, 3, 6]),
                "big": rng.choice([0.02, 0.1]), "style": policy.wire_style(rng), "bad_text": rng.choice([0.0, 0.0, 0.05]),
                "age": rng.choice([0] * 9 + [255, 300])}

    def make(self, init):
        st = St(World(init))
        st.x = {"tri": set(), "refused": 0, "post": 0, "states": set(), "last3": [], "byz_id": 100000, "sasl_round": False}
        if init.get("age"):
            try:
                st.w.fast_preroll("c", "s", int(init["age"]))
                st.hit("aged_pair")
            except Diverged:
                st.x["aged_failed"] = True
        return st

    # ------------------------------------------------------------------ policy

    def next_op(self, st, rng):
        w = st.w
        init = w.init
        c, s = w.s["c"], w.s["s"]
        g = Gen(rng, big=init["big"], bad_text=init.get("bad_text", 0.0))
        g.versions = True
        x = rng.random()
        # pending output is moved into the pipes eagerly (always complete drains)
        for who in ("c", "s"):
            if rng.random() < 0.5 and w.pending(who):
                return {"op": "drain", "who": who, "n": None}
        if x < 0.3:
            tos = [n for n in ("c", "s") if w.s[n].inbox]
            if tos:
                to = rng.choice(tos)
                bk, scr = policy.buf_kind(rng)
                return {"op": "deliver", "to": to, "n": policy.chunk_len(rng, len(w.s[to].inbox), init["chunk"]), "buf": bk, "scribble": scr}
        if rng.random() < init["byz_p"]:
            gb = Gen(rng, big=init["big"])  # the byzantine peer's own generator: its text must be encodable by the harness encoder
            gb.versions = True
            return self._splice(st, rng, gb)
        closed = [n for n in ("c", "s") if w.s[n].model.st == "CL"]
        if closed:
            st.x["post_ops"] = st.x.get("post_ops", 0) + 1
            if st.x["post_ops"] > 24:
                return None
        if closed and rng.random() < 0.5:
            who = rng.choice(closed)
            if rng.random() < 0.25:
                w.s[who].inbox.extend(b"")  # nothing to add: a receive of whatever is (not) there
                return {"op": "deliver", "to": who, "n": rng.choice([0, 1, 5])}
            if who == "c":
                m, a = rng.choice(CLIENT_CALLS)
            else:
                mid = rng.choice(sorted(s.model.retired)[-3:] + [1, 2]) if s.model.retired else rng.choice([1, 2])
                m, a = rng.choice(server_calls(mid))
            return {"op": "call", "who": who, "m": m, "a": a}
        if rng.random() < 0.5:
            cc = policy.client_call(g, c.model, illegal_p=init["illegal_p"], allow_unbind=init["term_p"], max_out=init["max_out"])
            if cc is not None:
                return {"op": "call", "who": "c", "m": cc[0], "a": cc[1]}
        if rng.random() < init["illegal_p"]:
            m, a, _ = policy.server_any_call(g, s.model, p_unbind=init["term_p"])
            return {"op": "call", "who": "s", "m": m, "a": a}
        sc = policy.server_legal_call(g, s.model, p_term=init["term_p"])
        if sc is None:
            if rng.random() < 0.5:
                m, a, _ = policy.server_any_call(g, s.model, p_unbind=init["term_p"])
                return {"op": "call", "who": "s", "m": m, "a": a}
            cc = policy.client_call(g, c.model, illegal_p=init["illegal_p"], allow_unbind=init["term_p"], max_out=init["max_out"])
            if cc is None:
                return {"op": "deliver", "to": "s", "n": 0}
            return {"op": "call", "who": "c", "m": cc[0], "a": cc[1]}
        return {"op": "call", "who": "s", "m": sc[0], "a": sc[1]}

    def _splice(self, st, rng, g):
        w = st.w
        c, s = w.s["c"], w.s["s"]
        st.x["byz_id"] += 1
        g.odd_known = True
        g.invalid_known = True
        if rng.random() < 0.15:
            # an invalid payload: a complete unit that is not an LDAPMessage -> the receiving session must close
            return {"op": "inject", "to": rng.choice(["c", "s"]), "hex": policy.garbage_unit(rng)}
        if rng.random() < 0.5:
            # towards the server
            r = rng.random()
            if r < 0.45:
                msg = policy.byz_request(g, st.x["byz_id"], "BindRequest")
            elif r < 0.6:
                msg = policy.byz_request(g, st.x["byz_id"], rng.choice(["SearchRequest", "ExtendedRequest"]))
            elif r < 0.8:
                msg = policy.byz_response(g, rng.choice([1, 2, st.x["byz_id"]]), rng.choice(policy.RESPONSE_KINDS))
            elif r < 0.9:
                msg = {"t": "UnbindRequest", "id": 0, "controls": []}
            else:
                msg = policy.byz_response(g, 0, "ExtendedResponse", notice=True)
            return {"op": "inject", "to": "s", "msg": msg}
        r = rng.random()
        if r < 0.35:
            msg = policy.byz_request(g, rng.choice([1, c.model.last_id + 1]), rng.choice(["BindRequest", "SearchRequest", "ExtendedRequest"]))
        elif r < 0.5:
            msg = {"t": "UnbindRequest", "id": 0, "controls": []}
        elif r < 0.7:
            mid = policy.pick_sorted(rng, c.model.out) if c.model.out and rng.random() < 0.5 else 0
            msg = policy.byz_response(g, mid, "ExtendedResponse", notice=True)
        else:
            cls = rng.choice(["completed", "next", "zero"])
            mid = policy.client_id_class_pick(rng, c.model, cls)
            msg = policy.byz_response(g, mid if mid is not None else 0, rng.choice(policy.RESPONSE_KINDS))
        return {"op": "inject", "to": "c", "msg": msg}

    # ------------------------------------------------------------------ step + oracle

    def _tri(self, st, kind, mst, acc):
        t = (kind, mst, acc)
        st.x["last3"].append(t)
        if len(st.x["last3"]) >= 3:
            st.x["tri"].add(tuple(st.x["last3"][-3:]))
        st.x["states"].add(mst)

    def step(self, st, op):
        w = st.w
        k = op["op"]
        if k in ("drain", "inject"):
            if k == "drain" and op.get("n") is not None:
                op = dict(op, n=None)
            ev = w.apply(op)
            if not ev.get("noop"):
                st.label(k)
                if k == "drain":
                    self._closed_bytes(st, ev, "data_to_send")
            return
        if k == "call":
            self._call(st, op)
        elif k == "deliver":
            self._deliver(st, op)

    def _closed_bytes(self, st, ev, what):
        """Nothing may change the outgoing stream of a session the model knows to be closed,
        except draining what was pending at closure."""
        if ev.get("mst_before") == "CL" and what != "data_to_send":
            if ev["pend_after"] != ev["pend_before"]:
                raise Violation(P, "bytes-after-closure/%s" % what, "%s on a closed session changed its outgoing stream: %d -> %d "
                                "pending bytes" % (what, len(ev["pend_before"]), len(ev["pend_after"])))

    def _call(self, st, op):
        w = st.w
        se = w.s.get(op.get("who"))
        if se is None:
            return
        m = op["m"]
        pre = se.model.clone()
        ev = w.apply(op)
        if ev.get("noop") or ev.get("expect") is None:
            return
        acc = ev["accepted"]
        role = se.role
        st.label("call:%s:%s:%s" % (role, m, "acc" if acc else "ref"))
        self._tri(st, "call:%s:%s" % (role, m), pre.st, acc)
        exp = ev["expect"]
        if pre.st == "CL":
            st.cell("closed/%s/%s" % (role, m))
            st.hit("client_closed_calls" if role == "c" else "server_closed_calls")
            st.x["post"] += 1
        elif pre.st == "BI":
            st.cell("BI/%s/%s" % (role, "bind_simple" if m in ("bind", "bind_sasl") else m))
            if m not in ("bind", "bind_simple", "bind_sasl", "bind_response", "unbind") and not (
                    m == "extended_response" and op["a"].get("name") == NOTICE_OID):
                st.hit("client_send_while_BI" if role == "c" else "server_send_while_BI")
            if m == "bind_response" and exp == "refuse":
                st.hit("bind_response_refused_while_BI")
            if role == "c" and m in ("bind", "bind_simple", "bind_sasl") and not pre.out and st.x["sasl_round"]:
                st.hit("sasl_round_then_rebind")
        if role == "c" and m in ("bind", "bind_simple", "bind_sasl") and pre.out:
            st.hit("client_bind_while_busy")
            if pre.srch:
                st.hit("search_outstanding_then_bind_c")
        if not acc:
            st.x["refused"] += 1
        if exp == "refuse" and acc:
            key = "closed-left/%s" % m if pre.st == "CL" else "illegal-accepted/%s/%s" % (m, pre.st)
            raise Violation(P, key, "%s.%s was accepted in model state %s (in progress %s); state now %s" % (
                op["who"], m, pre.st, sorted(pre.out), ev["st_after"]))
        if exp == "accept" and not acc:
            raise Violation(P, "legal-refused/%s/%s" % (m, pre.st), "%s.%s was refused (%s: %s) in model state %s (in progress %s)" % (
                op["who"], m, ev["exc"]["type"], ev["exc"]["msg"], pre.st, sorted(pre.out)))
        if not ev["state_sync"]:
            key = "closed-left/%s" % m if pre.st == "CL" else "state-mismatch/call:%s" % m
            raise Violation(P, key, "after %s %s.%s in model state %s the session reports %s, model says %s" % (
                "accepted" if acc else "refused", op["who"], m, pre.st, ev["st_after"], ev["mst_after"]))
        self._closed_bytes(st, ev, m)
        if acc and ev["mst_after"] == "CL" and pre.st != "CL":
            st.hit("closed_by_unbind" if m == "unbind" else "closed_by_notice")

    def _deliver(self, st, op):
        w = st.w
        se = w.s.get(op.get("to"))
        if se is None:
            return
        pre = se.model.clone()
        ev = w.apply(op)
        if ev.get("noop"):
            return
        role = se.role
        okk = ev["ok"]
        st.label("deliver:%s:%s" % (role, "ok" if okk else "err"))
        if ev.get("unreadable") or ev.get("expect") is None:
            raise Diverged("the peer's outgoing stream is not well-formed (C12's statement): %s" % ev.get("unreadable"))
        self._tri(st, "deliver:%s" % role, pre.st, okk)
        exp = ev["expect"]
        lights = ev["lights"] or []
        if pre.st == "CL":
            st.hit("receive_after_closure")
            st.x["post"] += 1
            if okk:
                raise Violation(P, "receive-after-closure/%s" % role, "receive(%d bytes) on a closed %s returned %r" % (
                    len(ev["data"]), "client" if role == "c" else "server", ev["msgs"]))
            if not ev["state_sync"]:
                raise Violation(P, "closed-left/receive", "receive on a closed session left state %s" % ev["st_after"])
            self._closed_bytes(st, ev, "receive")
            return
        # reach probes from the walk of a model copy
        walk = pre.clone()
        offender = None
        for lt in lights:
            if lt.get("invalid"):
                st.hit("invalid_payload_delivered")
            if role == "s":
                if lt["kind"] == "BindRequest" and walk.out:
                    st.hit("server_got_bind_while_busy")
                    if any(walk.kinds.get(i) == "SearchRequest" for i in walk.out):
                        st.hit("search_outstanding_then_bind_s")
                elif lt["kind"] in ("SearchRequest", "ExtendedRequest") and walk.st == "BI":
                    st.hit("request_while_server_BI")
            elif lt["kind"] == "BindResponse" and lt["code"] == 14 and lt["id"] in walk.out:
                st.x["sasl_round"] = True
            elif lt["kind"] == "BindResponse" and lt["id"] in walk.out and walk.st == "BI":
                st.hit("client_bind_completed")
                if lt["code"] != 0:
                    st.hit("client_bind_completed_nonzero_code")
            v = walk._recv_one(lt)
            if v == "error":
                offender = lt
                break
        if not okk and not ev["exc"]["proto"] and exp[0] == "error":
            st.hit("foreign_exception_where_error_expected")  # class is C05's statement; the state below is C08's
        elif not okk and not ev["exc"]["proto"]:
            if ev.get("followed"):
                # the exception class is C05's statement; C08 goes on and judges what the session does next against the
                # documented state machine (the bytes were delivered, whatever the implementation did with them)
                st.hit("foreign_exception_followed")
                return
            self.diverge_unless(dict(ev, sync=False), "receive raised %s (C05's statement)" % ev["exc"]["type"])
        if exp[0] == "error" and okk:
            raise Violation(P, "illegal-delivery-accepted/%s/%s/%s" % (role, offender["kind"] or ("invalid-payload" if offender.get("invalid") else "unknown-op"), pre.st),
                            "%s in model state %s (in progress %s) accepted %s id %s, which the documented state machine refuses" % (
                                "client" if role == "c" else "server", pre.st, sorted(pre.out), offender["kind"], offender["id"]))
        if exp[0] == "ok" and not okk:
            raise Violation(P, "legal-delivery-refused/%s/%s" % (role, lights[0]["kind"] if lights else "none"),
                            "%s in model state %s refused %s: %s" % ("client" if role == "c" else "server", pre.st,
                                                                     [(lt["kind"], lt["id"]) for lt in lights], ev["exc"]["msg"]))
        if not ev["state_sync"]:
            raise Violation(P, "state-mismatch/deliver:%s" % role, "after receive (%s) of %s in model state %s the session reports %s, "
                            "model says %s" % ("ok" if okk else "ProtocolError", [(lt["kind"], lt["id"]) for lt in lights], pre.st,
                                               ev["st_after"], ev["mst_after"]))
        if not okk:
            # (what the closing receive itself does to the outgoing stream is not constrained by C08: the docstring of
            # receive() even speaks of a notice being available in data_to_send; only LATER operations must produce nothing)
            st.hit("closed_by_protocol_error")

    def finish(self, st):
        """Post-closure sweep: every API call and receive on every session the model knows closed."""
        w = st.w
        for who in ("c", "s"):
            se = w.s[who]
            if se.model.st != "CL":
                continue
            calls = CLIENT_CALLS if who == "c" else server_calls(max([1] + se.model.retired))
            for m, a in calls:
                self._call(st, {"op": "call", "who": who, "m": m, "a": a})
            for n in (0, 3):
                se.inbox[:0] = b"\x30\x05\x02"[:n]
                self._deliver(st, {"op": "deliver", "to": who, "n": n})

    def nontrivial(self, st):
        return (st.x["refused"] + st.x["post"]) >= 1 and len(st.x["states"]) >= 2

    def distinct_key(self, st):
        return repr(sorted(st.x["tri"]))
