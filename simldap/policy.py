"""Op policies shared by the property checks: what a simulated application / byzantine peer
does next.  Every choice is drawn from the run PRNG; results are concrete op fields."""
from __future__ import annotations

from .model import BI, CL
from .rfc4511 import NOTICE_OID

AMOUNT_CLASSES = ("none", "zero", "one", "small", "mid", "exact", "plus1", "huge")


def pick_sorted(rng, s):
    return rng.choice(sorted(s))


# ------------------------------------------------------------------ client application


def client_call(g, model, illegal_p=0.0, allow_unbind=0.03, max_out=6):
    """Choose (method, args, intended) for the client app. intended: 'legal' | 'illegal'.
    Returns None when the app prefers to wait (pipeline full)."""
    r = g.r
    if len(model.out) >= max_out and r.random() > illegal_p:
        return None
    legal = []
    illegal = []
    for m in ("bind", "search_request", "extended_request", "unbind"):
        exp = model.call_expect("bind_simple" if m == "bind" else m, {})
        (legal if exp == "accept" else illegal).append(m)
    want_illegal = illegal and r.random() < illegal_p
    if want_illegal:
        m = r.choice(illegal)
    else:
        pool = [x for x in legal if x != "unbind"]
        if "unbind" in legal and r.random() < allow_unbind:
            m = "unbind"
        elif not pool and legal:
            return None  # e.g. BINDING with the bind outstanding: wait for the response
        elif pool:
            weights = {"bind": 8, "search_request": 4, "extended_request": 3}
            m = r.choices(pool, [weights[x] for x in pool])[0]
        elif illegal:
            m = r.choice(illegal)
            want_illegal = True
        else:
            return None
    if m == "bind":
        mm, a = g.a_bind_any()
    elif m == "search_request":
        mm, a = m, g.a_search_request()
    elif m == "extended_request":
        mm, a = m, g.a_extended_request()
    else:
        mm, a = "unbind", {}
    return mm, a, ("illegal" if want_illegal else "legal")


# ------------------------------------------------------------------ server application

SERVER_METHODS = ("bind_response", "extended_response", "search_result_entry", "search_result_reference",
                  "search_result_done")


def id_class_pick(r, model, cls):
    """Concrete id for an id class on a server model (or None if the class is empty)."""
    if cls == "outstanding":
        return pick_sorted(r, model.out) if model.out else None
    if cls == "retired":
        cand = [i for i in model.retired if i not in model.out]
        return r.choice(cand) if cand else None
    if cls == "never":
        known = sorted(set(model.out) | set(model.retired[-4:]))
        if known and r.random() < 0.3:
            # an id that was never received but is a machine-word alias of one that was (wrapped, truncated or sign-flipped)
            base = r.choice(known)
            alias = r.choice([base + 2 ** 32, base - 2 ** 32, base + 2 ** 16, base + 256, -base, base ^ 0x80])
            if alias not in model.out and alias not in model.retired and alias != 0:
                return alias
        hi = max([0] + list(model.out) + model.retired)
        return hi + r.choice([1, 2, 7, 1000])
    if cls == "zero":
        return 0
    raise ValueError(cls)


def server_args(g, m, mid, code=None, notice=False):
    if m == "bind_response":
        return g.a_bind_response(mid, code)
    if m == "extended_response":
        return g.a_extended_response(mid, NOTICE_OID if notice else "?")
    if m == "search_result_entry":
        return g.a_entry(mid)
    if m == "search_result_reference":
        return g.a_reference(mid)
    if m == "search_result_done":
        return g.a_done(mid)
    raise ValueError(m)


def server_legal_call(g, model, p_sasl=0.25, p_term=0.0):
    """A response the documented state machine accepts, of the kind matching the request."""
    r = g.r
    if model.st == CL:
        return None
    if p_term and r.random() < p_term:
        if model.out and r.random() < 0.6:
            mid = pick_sorted(r, model.out)
            return "extended_response", server_args(g, "extended_response", mid, notice=True)
        return "unbind", {}
    cands = []
    for mid in sorted(model.out):
        k = model.kinds.get(mid)
        if k == "BindRequest":
            cands.append((mid, "bind_response"))
        elif model.st != BI:
            if k == "SearchRequest":
                cands.extend([(mid, "search_result_entry"), (mid, "search_result_reference"), (mid, "search_result_done"),
                              (mid, "search_result_entry")])
            elif k == "ExtendedRequest":
                cands.append((mid, "extended_response"))
    if not cands:
        return None
    mid, m = r.choice(cands)
    code = None
    if m == "bind_response":
        code = 14 if r.random() < p_sasl else None
    a = server_args(g, m, mid, code)
    if m == "extended_response" and a.get("name") == NOTICE_OID:
        a["name"] = None
    return m, a


def server_any_call(g, model, focus=None, p_unbind=0.04):
    """Adversarial server app: any method x any id class (focus = (method, idclass) or None)."""
    r = g.r
    if focus is None:
        if r.random() < p_unbind:
            return "unbind", {}, "n/a"
        m = r.choice(SERVER_METHODS)
        cls = r.choice(["outstanding", "outstanding", "retired", "never", "zero"])
    else:
        m, cls = focus
    mid = id_class_pick(r, model, cls)
    if mid is None:
        cls = "never"
        mid = id_class_pick(r, model, cls)
    notice = m == "extended_response" and r.random() < 0.08
    code = 14 if (m == "bind_response" and r.random() < 0.25) else None
    a = server_args(g, m, mid, code, notice)
    if m == "extended_response" and not notice and a.get("name") == NOTICE_OID:
        a["name"] = None
    return m, a, cls


# ------------------------------------------------------------------ byzantine peers (own encoder)


def byz_request(g, mid, kind=None):
    """Abstract well-formed request message with id `mid` (towards a server)."""
    r = g.r
    kind = kind or r.choice(["BindRequest", "SearchRequest", "SearchRequest", "ExtendedRequest", "ExtendedRequest"])
    if kind == "BindRequest":
        m, a = g.a_bind_any()
        from .values import expected_message

        msg = expected_message(m, a, mid)
        if getattr(g, "versions", False) and r.random() < 0.25:
            msg["version"] = 2
        return msg
    if kind == "SearchRequest":
        from .values import expected_message

        return expected_message("search_request", g.a_search_request(), mid)
    if kind == "ExtendedRequest":
        from .values import expected_message

        return expected_message("extended_request", g.a_extended_request(), mid)
    if kind == "UnbindRequest":
        return {"t": "UnbindRequest", "id": mid, "controls": []}
    raise ValueError(kind)


RESPONSE_KINDS = ("BindResponse", "SearchResultEntry", "SearchResultReference", "SearchResultDone", "ExtendedResponse")
_RESP_METHOD = {"BindResponse": "bind_response", "SearchResultEntry": "search_result_entry",
                "SearchResultReference": "search_result_reference", "SearchResultDone": "search_result_done",
                "ExtendedResponse": "extended_response"}


def byz_response(g, mid, kind, code=None, notice=False):
    """Abstract well-formed response message (towards a client)."""
    from .values import expected_message

    m = _RESP_METHOD[kind]
    a = server_args(g, m, mid, code, notice)
    if kind == "ExtendedResponse" and not notice and a.get("name") == NOTICE_OID:
        a["name"] = None
    msg = expected_message(m, a, mid)
    if kind == "ExtendedResponse" and msg.get("name") is not None and g.r.random() < 0.3:
        msg["ms_adts"] = True  # Active Directory style: responseName at the envelope level
    return msg


def client_id_class_pick(r, model, cls):
    if cls == "search":
        return pick_sorted(r, model.srch) if model.srch else None
    if cls == "nonsearch":
        cand = sorted(model.out - model.srch)
        return r.choice(cand) if cand else None
    if cls == "completed":
        cand = [i for i in model.retired if i not in model.out]
        return r.choice(cand) if cand else None
    if cls == "next":
        return model.last_id + 1
    if cls == "zero":
        return 0
    if cls == "large":
        return r.choice([2147483647, 65536, model.last_id + 1000])
    if cls == "alias":
        # never issued, but congruent to an id in progress modulo 2**8 / 2**16 / 2**32 (5+ content octets, negatives)
        if not model.out:
            return None
        base = pick_sorted(r, model.out)
        hi = [i for i in model.out if 128 <= i <= 255]
        if hi and r.random() < 0.5:
            # an id whose one-octet two's complement reading is negative: the alias is the negative value itself
            return r.choice(sorted(hi)) - 256
        return base + r.choice([2 ** 32, 2 ** 40, -(2 ** 32), 2 ** 16, 2 ** 8, -(2 ** 8), -(2 ** 16), 2 ** 64])
    raise ValueError(cls)


def matching_response_kind(r, model, mid):
    k = model.kinds.get(mid)
    if k == "BindRequest":
        return "BindResponse"
    if k == "SearchRequest":
        return r.choice(["SearchResultEntry", "SearchResultEntry", "SearchResultReference", "SearchResultDone"])
    return "ExtendedResponse"


# ------------------------------------------------------------------ transport choices


def drain_amount(r, pending, cls=None):
    cls = cls or r.choice(AMOUNT_CLASSES)
    if cls == "none":
        return None, cls
    if cls == "zero":
        return 0, cls
    if cls == "one":
        return 1, cls
    if cls == "small":
        return r.randint(2, 5), cls
    if cls == "mid":
        if pending >= 3:
            return r.randint(1, pending - 1), cls
        return 1, "one"
    if cls == "exact":
        return pending, cls
    if cls == "plus1":
        return pending + 1, cls
    return 1000000, "huge"


def amount_class_of(n, pending):
    if n is None:
        return "none"
    if n == 0:
        return "zero"
    if n == pending:
        return "exact"
    if n == pending + 1:
        return "plus1"
    if n > pending:
        return "huge"
    if n == 1:
        return "one"
    return "partial"


def chunk_len(r, avail, style):
    """How many bytes the transport hands over next."""
    if avail == 0:
        return 0
    if style == "byte":
        return 1
    if style == "whole":
        return avail
    x = r.random()
    if x < 0.08:
        return 0
    if x < 0.35:
        return 1
    if x < 0.6:
        return r.randint(1, min(avail, 6))
    if x < 0.85:
        return r.randint(1, avail)
    return avail


def buf_kind(r):
    k = r.choice(["bytes", "bytes", "bytearray", "memoryview", "bytes", "bytes", "bytearray", "memoryview", "bytearray_viewed", "memoryview_reused"])
    return k, (k != "bytes" and r.random() < 0.7)


def wire_style(r):
    """Encoding style of a byzantine (foreign, conforming) peer: minimal lengths, AD-like 4-octet
    lengths on constructed values, or long forms everywhere."""
    x = r.random()
    if x < 0.6:
        return None
    if x < 0.85:
        return [4, None]
    if x < 0.92:
        return [r.choice([1, 2, 3]), r.choice([None, 1, 2])]
    if x < 0.96:
        return [r.choice([5, 8]), r.choice([None, 5])]  # leading zero length octets beyond four
    return [4, 4]


RAW_TAGS = [25, 25, 6, 7, 8, 9, 10, 11, 12, 13, 14, 15, 16, 26, 30, 31, 100]


def byz_raw_op(r, mid):
    """A well-formed LDAPMessage whose protocolOp is one the library does not implement (RFC 4511 operations such as
    IntermediateResponse [25], modify, add, delete, compare, abandon, or a future one)."""
    from . import ber

    tag = r.choice(RAW_TAGS)
    if tag == 25:
        body = r.choice([b"", ber.octets(b"1.3.6.1.4.1.4203.1.9.1.4", ber.CONTEXT, 0) + ber.octets(b"\x01", ber.CONTEXT, 1)])
    elif tag == 10 or tag == 16:
        # DelRequest carries a DN; AbandonRequest the id to abandon: its own, the previous one, or 1
        target = r.choice([mid, mid, mid - 1, 1]) if isinstance(mid, int) else 1
        return {"t": "RawOp", "id": mid, "controls": [], "tag": tag, "constructed": False,
                "body": (b"cn=x" if tag == 10 else ber.enc_int_content(max(0, target))).hex()}
    else:
        body = r.choice([b"", ber.enumerated(0) + ber.octets(b"") + ber.octets(b"")])
    return {"t": "RawOp", "id": mid, "controls": [], "tag": tag, "constructed": True, "body": body.hex()}


GARBAGE_UNITS = ["3000", "30020201", "300402050001", "3003020107", "3081030201ff", "04020000", "30060201ff420000", "0000",
                 "308400000000", "3005020100a000"]


def garbage_unit(r):
    """A complete outer TLV that is certainly not a valid LDAPMessage (invalid payload)."""
    return r.choice(GARBAGE_UNITS)
