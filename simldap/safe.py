"""JSON / text helpers that survive integers of thousands of digits (CPython refuses to convert those to decimal text)."""
from __future__ import annotations

import json

_BIG = 1 << 4096


def tame(x):
    """Same structure with every integer beyond +-2**4096 replaced by a hexadecimal string."""
    if isinstance(x, bool) or x is None or isinstance(x, (str, float)):
        return x
    if isinstance(x, int):
        return x if -_BIG < x < _BIG else "int:" + hex(x)
    if isinstance(x, dict):
        return {(k if isinstance(k, str) else tame(k)): tame(v) for k, v in x.items()}
    if isinstance(x, (list, tuple)):
        return [tame(v) for v in x]
    if isinstance(x, (set, frozenset)):
        return sorted((tame(v) for v in x), key=repr)
    return x


def dumps(obj, **kw):
    try:
        return json.dumps(obj, **kw)
    except ValueError:
        return json.dumps(tame(obj), **kw)


def text(x):
    """str(x) for messages; giant integers in hexadecimal."""
    try:
        return str(x)
    except ValueError:
        return str(tame(x)) if isinstance(x, (int, dict, list, tuple, set)) else "<unprintable %s>" % type(x).__name__
