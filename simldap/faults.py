"""Structure-aware wire fault injector (DESIGN 2.1).  Works on the bytes of ONE PDU through the
independent TLV parser; node addressing = index in DFS pre-order.  `choose()` draws a concrete
fault from the PRNG, `apply()` executes a concrete fault description (total: returns None when
the address no longer exists)."""
from __future__ import annotations

from . import ber

NODE_KINDS_RAW = ("tag_edit", "len_edit", "content_edit", "zero_len_primitive", "node_delete", "node_duplicate", "node_swap",
                  "content_truncate", "children_truncate")
# interior family: the outer TLV stays complete and exact (C06)
INTERIOR = ("inner_len_edit", "node_delete_reframed", "children_truncate_reframed", "zero_len_primitive_reframed",
            "content_truncate_reframed", "control_value_damage", "node_duplicate_reframed", "tag_edit_reframed",
            "content_edit", "inner_len_shrink", "envelope_emptied", "root_tag_edit", "giant_integer")
PDU_KINDS = ("truncate_stream", "insert_garbage", "random_blob", "pdu_duplicate", "pdu_reorder", "deep_nest", "byz_message", "giant_pending",
             "request_flood")

PAGED_OID = b"1.2.840.113556.1.4.319"


def _hdr(node, new_len, buf):
    """Re-encode a node's header for a new content length, keeping its identifier octets and,
    where possible, its length form."""
    ident_len = node.hl - _len_octets(buf, node)
    ident = bytes(buf[node.off : node.off + ident_len])
    lo = buf[node.off + ident_len]
    if lo & 0x80:
        k = lo & 0x7F
        need = max(1, (new_len.bit_length() + 7) // 8)
        return ident + ber.enc_len(new_len, form=max(k, need))
    return ident + ber.enc_len(new_len)


def _len_octets(buf, node):
    # header = identifier octets + length octets; find where the length octets start
    p = node.off + 1
    if buf[node.off] & 0x1F == 0x1F:
        while buf[p] & 0x80:
            p += 1
        p += 1
    return node.off + node.hl - p


def splice(buf, node, new_bytes, reframe):
    """Replace the bytes of `node` by `new_bytes`; with `reframe` all ancestors' length octets
    are recomputed so that the outermost TLV stays exact."""
    buf = bytes(buf)
    out = buf[: node.off] + new_bytes + buf[node.end :]
    if not reframe:
        return out
    delta = len(new_bytes) - (node.end - node.off)
    anc = node.parent
    while anc is not None:
        new_len = anc.ln + delta
        if new_len < 0:
            return None
        h = _hdr(anc, new_len, buf)
        out = out[: anc.off] + h + out[anc.off + anc.hl :]
        delta += len(h) - anc.hl
        anc = anc.parent
    return out


def set_len_field(buf, node, new_len, octets=None):
    """Rewrite only the length octets of `node` (content and ancestors untouched)."""
    ident_len = node.hl - _len_octets(buf, node)
    ident = bytes(buf[node.off : node.off + ident_len])
    if octets is not None:
        lenb = bytes(octets)
    else:
        lenb = ber.enc_len(new_len)
    return bytes(buf[: node.off]) + ident + lenb + bytes(buf[node.off + node.hl :])


def parse(pdu):
    root, order = ber.parse_tree(pdu, 0, len(pdu))
    return root, order


def choose(rng, pdu, family):
    """Draw a concrete fault for this PDU.  family: 'raw' (C05) | 'interior' (C06)."""
    root, order = parse(pdu)
    if root is None or root.end != len(pdu):
        return None
    if family == "interior":
        kind = rng.choice(INTERIOR)
    else:
        kind = rng.choice(NODE_KINDS_RAW + INTERIOR)
    inner = [i for i, n in enumerate(order) if n.parent is not None]
    if not inner:
        return None
    prims = [i for i in inner if not order[i].constructed]
    cons = [i for i in inner if order[i].constructed and order[i].children]
    f = {"kind": kind}
    if kind in ("inner_len_edit",):
        i = rng.choice(inner)
        f.update(node=i, how=rng.choice(["+1", "+2", "+5", "+100", "x2", "max1", "long4_big"]))
    elif kind == "inner_len_shrink":
        i = rng.choice(inner)
        f.update(node=i, how=rng.choice(["-1", "-2", "0", "half"]))
    elif kind == "len_edit":
        i = rng.randrange(len(order))
        f.update(node=i, how=rng.choice(["+1", "-1", "0", "huge", "long1", "long4", "leading0", "indef", "ff", "lol127"]))
    elif kind in ("tag_edit", "tag_edit_reframed"):
        i = rng.choice(inner) if kind.endswith("reframed") else rng.randrange(len(order))
        # tag numbers next to the ones the protocol uses matter most (choice n+1 of an n-way CHOICE etc.)
        f.update(node=i, how=rng.choice(["class", "number", "number", "neighbour", "neighbour", "constructed", "hightag", "hightag_trunc", "zero", "hightag1"]),
                 delta=rng.choice([-2, -1, 1, 1, 2, 3]),
                 val=rng.choice(list(range(0, 13)) * 3 + [19, 23, 24, 25, 30]) if rng.random() < 0.75 else rng.randrange(256),
                 val1=rng.choice([31, 32, 35, 36, 37, 38, 63, 64, 127]) if rng.random() < 0.6 else rng.randrange(128))
    elif kind == "content_edit":
        if not prims:
            return None
        i = rng.choice(prims)
        n = order[i]
        if n.ln == 0:
            return None
        f.update(node=i, pos=rng.randrange(n.ln), val=rng.choice([0x00, 0xFF, 0x80, 0x7F, 0xC3, rng.randrange(256)]),
                 mode=rng.choice(["set", "xor"]))
    elif kind in ("zero_len_primitive", "zero_len_primitive_reframed"):
        if not prims:
            return None
        # prefer INTEGER / BOOLEAN / ENUMERATED
        pref = [i for i in prims if order[i].cls == ber.UNIVERSAL and order[i].num in (1, 2, 10)]
        i = rng.choice(pref) if pref and rng.random() < 0.7 else rng.choice(prims)
        f.update(node=i)
    elif kind in ("node_delete", "node_delete_reframed"):
        f.update(node=rng.choice(inner))
    elif kind in ("node_duplicate", "node_duplicate_reframed"):
        f.update(node=rng.choice(inner))
    elif kind == "node_swap":
        cand = [i for i in inner if order[i].parent and len(order[i].parent.children) >= 2]
        if not cand:
            return None
        f.update(node=rng.choice(cand))
    elif kind in ("content_truncate", "content_truncate_reframed"):
        cand = [i for i in prims if order[i].ln >= 1]
        if not cand:
            return None
        i = rng.choice(cand)
        f.update(node=i, keep=rng.randrange(order[i].ln))
    elif kind in ("children_truncate", "children_truncate_reframed"):
        pool = cons + ([0] if order[0].children else [])
        if not pool:
            return None
        i = rng.choice(pool)
        f.update(node=i, keep=rng.randrange(len(order[i].children)))
    elif kind == "control_value_damage":
        f.update(how=rng.choice(["empty", "short", "absent", "not_sequence", "inner_overrun"]))
    elif kind == "giant_integer":
        # an INTEGER / ENUMERATED (message id, limits, result code, version ...) of thousands of octets: legal BER, and beyond
        # what the interpreter converts to decimal text without complaint
        pref = [i for i in prims if order[i].cls == ber.UNIVERSAL and order[i].num in (2, 10)]
        pool = pref if pref and rng.random() < 0.85 else prims
        if not pool:
            return None
        f.update(node=rng.choice(pool), octets=rng.choice([1794, 1800, 2500, 6000]), first=rng.choice([0x01, 0x7F, 0xFF, 0x80]),
                 fill=rng.choice([0x00, 0xFF, 0x55]))
    elif kind == "root_tag_edit":
        # the outermost identifier octets are replaced (content untouched): still one complete unit for any framer
        f.update(how=rng.choice(["hightag5", "hightag_pad", "application", "context", "primitive", "set", "hightag2"]))
    elif kind == "envelope_emptied":
        # the outer SEQUENCE (or the protocolOp) keeps its tag but has no content at all, in any length form
        f.update(node=rng.choice([0, 0, 2]) if len(order) > 2 else 0, how=rng.choice(["short", "long1", "long2", "long4", "keep"]))
    return f


def _find_paged_value(pdu, order):
    for i, n in enumerate(order):
        if not n.constructed and n.cls == ber.UNIVERSAL and n.num == 4 and bytes(pdu[n.off + n.hl : n.end]) == PAGED_OID:
            sibs = n.parent.children if n.parent else []
            for s in sibs:
                if s is not n and s.cls == ber.UNIVERSAL and s.num == 4 and s.off > n.off:
                    return s
    return None


def apply(pdu, f):
    """Execute fault `f` on one PDU.  Returns the damaged bytes or None (address gone / not applicable)."""
    pdu = bytes(pdu)
    root, order = parse(pdu)
    if root is None:
        return None
    kind = f.get("kind")
    i = f.get("node")
    node = order[i] if isinstance(i, int) and 0 <= i < len(order) else None
    reframe = kind.endswith("_reframed")
    base = kind[: -len("_reframed")] if reframe else kind
    if base in ("inner_len_edit", "inner_len_shrink", "len_edit"):
        if node is None:
            return None
        how = f.get("how")
        ln = node.ln
        if how in ("+1", "+2", "+5", "+100"):
            return set_len_field(pdu, node, ln + int(how[1:]))
        if how == "x2":
            return set_len_field(pdu, node, ln * 2 + 1)
        if how == "max1":
            return set_len_field(pdu, node, 127)
        if how == "long4_big":
            return set_len_field(pdu, node, 0, octets=b"\x84\x7f\xff\xff\xff")
        if how in ("-1", "-2"):
            if ln < int(how[1:]):
                return None
            return set_len_field(pdu, node, ln - int(how[1:]))
        if how == "0":
            return set_len_field(pdu, node, 0)
        if how == "half":
            return set_len_field(pdu, node, ln // 2)
        if how == "huge":
            return set_len_field(pdu, node, 0, octets=b"\x84\xff\xff\xff\xff")
        if how == "long1":
            return set_len_field(pdu, node, 0, octets=b"\x81" + bytes([ln & 0xFF]))
        if how == "long4":
            return set_len_field(pdu, node, 0, octets=b"\x84" + ln.to_bytes(4, "big"))
        if how == "leading0":
            return set_len_field(pdu, node, 0, octets=b"\x88" + ln.to_bytes(8, "big"))
        if how == "indef":
            return set_len_field(pdu, node, 0, octets=b"\x80")
        if how == "ff":
            return set_len_field(pdu, node, 0, octets=b"\xff")
        if how == "lol127":
            return set_len_field(pdu, node, 0, octets=b"\xff" + b"\x00" * 120 + ln.to_bytes(7, "big"))
        return None
    if base == "tag_edit":
        if node is None:
            return None
        how = f.get("how")
        b0 = pdu[node.off]
        val = f.get("val", 0)
        if how == "class":
            nb = bytes([(b0 & 0x3F) | ((val & 3) << 6)])
        elif how == "number":
            nb = bytes([(b0 & 0xE0) | (val & 0x1F if (val & 0x1F) != 0x1F else 0x1E)])
        elif how == "neighbour":
            # the tag number next to the one in use (choice n+1 of an n-way CHOICE, the following context tag ...)
            nn = (b0 & 0x1F) + int(f.get("delta", 1))
            if (b0 & 0x1F) == 0x1F or not 0 <= nn < 31:
                return None
            nb = bytes([(b0 & 0xE0) | nn])
        elif how == "constructed":
            nb = bytes([b0 ^ 0x20])
        elif how == "hightag":
            nb = bytes([b0 | 0x1F, 0x80 | (val & 0x7F), val & 0x7F])
        elif how == "hightag1":
            # high-tag-number form with ONE following octet: numbers 31..127, and the non-minimal encodings of 0..30; the edges
            # of the table of universal types (36 / 37 / 38) and of one-octet numbers (127) are preferred
            nb = bytes([b0 | 0x1F, int(f.get("val1", 37)) & 0x7F])
        elif how == "hightag_trunc":
            nb = bytes([b0 | 0x1F, 0x80 | (val & 0x7F)])
        else:
            nb = b"\x00"
        ident_len = node.hl - _len_octets(pdu, node)
        new = nb + pdu[node.off + ident_len : node.end]
        return splice(pdu, node, new, reframe)
    if base == "content_edit":
        if node is None or node.constructed or node.ln == 0:
            return None
        pos = node.off + node.hl + (f.get("pos", 0) % node.ln)
        b = bytearray(pdu)
        b[pos] = (b[pos] ^ (f.get("val", 1) or 1)) if f.get("mode") == "xor" else f.get("val", 0)
        return bytes(b)
    if base == "zero_len_primitive":
        if node is None or node.constructed:
            return None
        ident_len = node.hl - _len_octets(pdu, node)
        new = pdu[node.off : node.off + ident_len] + b"\x00"
        if reframe:
            return splice(pdu, node, new, True)
        # raw: zero the length but leave the old content octets in place (they become siblings)
        return set_len_field(pdu, node, 0)
    if base == "node_delete":
        if node is None or node.parent is None:
            return None
        return splice(pdu, node, b"", reframe)
    if base == "node_duplicate":
        if node is None or node.parent is None:
            return None
        raw = pdu[node.off : node.end]
        return splice(pdu, node, raw + raw, reframe)
    if base == "node_swap":
        if node is None or node.parent is None:
            return None
        sibs = node.parent.children
        k = sibs.index(node)
        other = sibs[k + 1] if k + 1 < len(sibs) else sibs[k - 1]
        a, b = (node, other) if node.off < other.off else (other, node)
        return pdu[: a.off] + pdu[b.off : b.end] + pdu[a.end : b.off] + pdu[a.off : a.end] + pdu[b.end :]
    if base == "content_truncate":
        if node is None or node.constructed or node.ln < 1:
            return None
        keep = f.get("keep", 0) % node.ln
        if reframe:
            hdr = _hdr(node, keep, pdu)
            return splice(pdu, node, hdr + pdu[node.off + node.hl : node.off + node.hl + keep], True)
        return pdu[: node.off + node.hl + keep] + pdu[node.end :]
    if base == "children_truncate":
        if node is None or not node.children:
            return None
        keep = f.get("keep", 0) % len(node.children)
        cut = node.children[keep].off
        content = pdu[node.off + node.hl : cut]
        if reframe:
            return splice(pdu, node, _hdr(node, len(content), pdu) + content, True)
        return pdu[:cut] + pdu[node.end :]
    if base == "giant_integer":
        if node is None or node.constructed:
            return None
        content = bytes([f.get("first", 1)]) + bytes([f.get("fill", 0)]) * (int(f.get("octets", 1800)) - 1)
        return splice(pdu, node, _hdr(node, len(content), pdu) + content, True)
    if base == "root_tag_edit":
        ident_len = root.hl - _len_octets(pdu, root)
        rest = pdu[ident_len:]
        how = f.get("how")
        ident = {"hightag5": b"\x7f\x8f\xff\xff\xff\x7f", "hightag_pad": b"\x3f\x80\x80\x80\x80\x10", "application": b"\x70", "context": b"\xb0",
                 "primitive": b"\x10", "set": b"\x31", "hightag2": b"\x3f\x81\x10"}.get(how)
        return None if ident is None else ident + rest
    if base == "envelope_emptied":
        if node is None or not node.constructed:
            return None
        ident_len = node.hl - _len_octets(pdu, node)
        ident = pdu[node.off : node.off + ident_len]
        how = f.get("how")
        lenb = {"short": b"\x00", "long1": b"\x81\x00", "long2": b"\x82\x00\x00", "long4": b"\x84\x00\x00\x00\x00"}.get(how)
        if lenb is None:
            lenb = _hdr(node, 0, pdu)[ident_len:]
        if node.parent is None:
            return ident + lenb
        return splice(pdu, node, ident + lenb, True)
    if base == "control_value_damage":
        v = _find_paged_value(pdu, order)
        if v is None:
            return None
        how = f.get("how")
        if how == "empty":
            new = b"\x04\x00"
        elif how == "short":
            new = b"\x04\x02\x30\x05"
        elif how == "absent":
            new = b""
        elif how == "not_sequence":
            new = b"\x04\x03\x02\x01\x05"
        else:
            new = b"\x04\x05\x30\x03\x02\x05\x01"
        return splice(pdu, v, new, True)
    return None


def outer_intact(pdu):
    """Is `pdu` exactly one complete outer TLV by the independent framer?"""
    units, rest, flag = ber.frame_units(pdu)
    return flag is None and len(units) == 1 and rest == len(pdu)
