"""Deterministic simulation + fault injection for jborean93/sansldap (see /verif/DESIGN.md)."""
