"""Executable reference model of the documented session state machine (DESIGN 3.2).

Written from the SessionState docstring, the API docstrings and the property statements.
Imports nothing from sansldap.  Deliberately silent where the documents are silent: such
cases answer "either" and the model then follows what the implementation did.
"""
from __future__ import annotations

from .rfc4511 import NOTICE_OID, REQUEST_KINDS, RESPONSE_KINDS

B0, BI, OP, CL = "B0", "BI", "OP", "CL"
REAL_STATE = {"BEFORE_OPEN": B0, "BINDING": BI, "OPENED": OP, "CLOSED": CL}

SASL_IN_PROGRESS = 14

_MATCH = {
    "bind_response": "BindRequest",
    "extended_response": "ExtendedRequest",
    "search_result_entry": "SearchRequest",
    "search_result_reference": "SearchRequest",
    "search_result_done": "SearchRequest",
}
FINAL_METHODS = ("bind_response", "extended_response", "search_result_done")


class Model:
    def __init__(self, role):
        assert role in ("c", "s")
        self.role = role
        self.st = B0
        self.out = set()
        self.srch = set()  # client: ids that are searches
        self.kinds = {}  # server: id -> request kind
        self.last_id = 0  # client: highest id handed out
        self.retired = []  # ids that completed (for id-class generation)
        self.b0_loose = False  # a refused call happened while B0 (real may report OPENED)

    def clone(self):
        m = Model(self.role)
        m.st = self.st
        m.out = set(self.out)
        m.srch = set(self.srch)
        m.kinds = dict(self.kinds)
        m.last_id = self.last_id
        m.retired = list(self.retired)
        m.b0_loose = self.b0_loose
        return m

    # ------------------------------------------------------------------ state comparison

    def state_ok(self, real_name):
        """Is the implementation's state name consistent with the model?  (B0/OP tolerance
        after refused calls, see DESIGN 3.2.)  Follows reality inside the tolerance."""
        r = REAL_STATE.get(real_name)
        if r == self.st:
            return True
        if self.st == B0 and r == OP and self.b0_loose:
            self.st = OP
            return True
        return False

    def same_class(self, real_name):
        """State equality treating not-yet-opened and opened alike."""
        r = REAL_STATE.get(real_name)
        a = OP if self.st == B0 else self.st
        b = OP if r == B0 else r
        return a == b

    # ------------------------------------------------------------------ calls

    def call_expect(self, method, a):
        """'accept' | 'refuse' | 'either'"""
        if self.st == CL:
            return "refuse"
        if method == "unbind":
            return "accept"
        if self.role == "c":
            if method in ("bind", "bind_simple", "bind_sasl"):
                return "accept" if not self.out else "refuse"
            if method in ("search_request", "extended_request"):
                return "accept" if self.st in (B0, OP) else "refuse"
            raise ValueError(method)
        # server responses
        mid = a["id"]
        if mid not in self.out:
            return "refuse"
        notice = method == "extended_response" and a.get("name") == NOTICE_OID
        if self.st == BI and not (method == "bind_response" or notice):
            return "refuse"
        if notice:
            return "accept"
        return "accept" if _MATCH[method] == self.kinds.get(mid) else "either"

    def call_commit(self, method, a, accepted, ret=None):
        """Apply the effects of a call whose real outcome was `accepted` (must be allowed by
        call_expect - the caller checks that first)."""
        if not accepted:
            if self.st == B0:
                self.b0_loose = True
            return
        if method == "unbind":
            self._close()
            return
        if self.role == "c":
            mid = ret
            self.last_id = max(self.last_id, mid if isinstance(mid, int) else self.last_id)
            self.out.add(mid)
            if method in ("bind", "bind_simple", "bind_sasl"):
                self.st = BI
                self.kinds[mid] = "BindRequest"
            else:
                if self.st == B0:
                    self.st = OP
                if method == "search_request":
                    self.srch.add(mid)
                    self.kinds[mid] = "SearchRequest"
                else:
                    self.kinds[mid] = "ExtendedRequest"
            return
        mid = a["id"]
        notice = method == "extended_response" and a.get("name") == NOTICE_OID
        if method in ("search_result_entry", "search_result_reference"):
            if self.st == B0:
                self.st = OP
            return
        self._retire(mid)
        if notice:
            self._close()
        elif method == "bind_response":
            if a.get("code", 0) != SASL_IN_PROGRESS:
                self.st = OP
        elif self.st == B0:
            self.st = OP

    def _close(self):
        """A closed session has no operations in progress any more."""
        self.st = CL
        for mid in sorted(self.out):
            self.retired.append(mid)
        self.out = set()
        self.srch = set()

    def _retire(self, mid):
        self.out.discard(mid)
        self.srch.discard(mid)
        self.retired.append(mid)

    # ------------------------------------------------------------------ deliveries

    def _recv_one(self, lt):
        """Process one complete, well-formed message (light view).  Returns 'ok' | 'error' |
        'either'.  Mutates on 'ok'/'either' as if accepted."""
        v = self._recv_one_strict(lt)
        if v == "ok" and lt.get("dubious"):
            return "either"  # e.g. a known control with a missing value: rejecting and tolerating are both defensible
        return v

    def _recv_one_strict(self, lt):
        kind = lt["kind"]
        mid = lt["id"]
        if kind == "UnbindRequest":
            return "error"
        if kind == "ExtendedResponse" and lt.get("name") == NOTICE_OID:
            return "error"
        if kind is None:
            return "error"
        if self.role == "c":
            if kind not in RESPONSE_KINDS:
                return "error"
            if mid not in self.out:
                return "error"
            if not (mid in self.srch and kind != "SearchResultDone"):
                self._retire(mid)
            if kind == "BindResponse" and lt.get("code") != SASL_IN_PROGRESS:
                self.st = OP
            return "ok"
        # server
        if kind not in REQUEST_KINDS:
            return "error"
        if kind == "BindRequest":
            if self.out:
                return "error"
            self.st = BI
            self.out.add(mid)
            self.kinds[mid] = kind
            return "ok"
        verdict = "ok"
        if self.st == BI:
            verdict = "either"  # not stated whether a server tolerates other requests while binding
        elif self.st == B0:
            self.st = OP
        if mid in self.out and self.kinds.get(mid) not in (None, kind):
            # the peer reused the id of a request still in progress for a request of another kind: one open request whose
            # matching response kind is no longer defined
            self.kinds[mid] = "mixed"
        else:
            self.kinds[mid] = kind
        self.out.add(mid)
        return verdict

    def recv_expect(self, lights):
        """Expectation for one receive() call that completes the messages `lights`.

        Returns (verdict, n): verdict 'ok' -> returns exactly n messages;
        'error' -> ProtocolError (message index n is the offender);
        'either' -> either of the two is acceptable (undocumented corner)."""
        m = self.clone()
        either = False
        for i, lt in enumerate(lights):
            v = m._recv_one(lt)
            if v == "error":
                return ("either" if either else "error"), i
            if v == "either":
                either = True
        return ("either" if either else "ok"), len(lights)

    def recv_commit(self, lights, raised):
        if raised:
            self._close()
            return
        for lt in lights:
            self._recv_one(lt)

    def closed_by_error(self):
        self._close()
