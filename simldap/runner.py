"""Seeded multi-process runner, shrinking, replay files, known findings, evidence files."""
from __future__ import annotations

import concurrent.futures as cf
import faulthandler
import hashlib
import json
import multiprocessing as mp
import os
import random
import subprocess
import sys
import time
import traceback

from .world import Diverged, HarnessError, Violation

VERIF = os.path.dirname(os.path.dirname(os.path.abspath(__file__)))
OUT = os.path.join(VERIF, "out")
REPLAYS = os.path.join(OUT, "replays")
EVIDENCE = os.path.join(VERIF, "evidence")
KNOWN = os.path.join(VERIF, "KNOWN_FINDINGS.txt")


def derive_seed(base, prop, tier, idx):
    h = hashlib.sha256(("%d:%s:%s:%d" % (base, prop, tier, idx)).encode()).digest()
    return int.from_bytes(h[:8], "big")


def h64(x):
    return int.from_bytes(hashlib.blake2b(x.encode() if isinstance(x, str) else x, digest_size=8).digest(), "big")


# ------------------------------------------------------------------ one run


def execute(prop, ops, rng=None, max_steps=0, collect=True):
    """Run a generated (rng given) or replayed (ops given) execution.

    Returns dict(ops, violation, diverged, digest, stats, at)."""
    res = {"violation": None, "diverged": None, "at": None}
    if rng is not None:
        init = prop.init_op(rng)
        ops = [init]
        try:
            st = None
            st = prop.make(init)
            for _ in range(max_steps):
                op = prop.next_op(st, rng)
                if op is None:
                    break
                ops.append(op)
                prop.step(st, op)
            prop.finish(st)
        except Violation as v:
            res["violation"] = v
            res["at"] = len(ops) - 1
        except Diverged as d:
            res["diverged"] = str(d)
    else:
        i = 0
        try:
            st = None
            st = prop.make(ops[0])
            for i, op in enumerate(ops[1:], 1):
                prop.step(st, op)
            i = len(ops)
            prop.finish(st)
        except Violation as v:
            res["violation"] = v
            res["at"] = i
        except Diverged as d:
            res["diverged"] = str(d)
    res["ops"] = ops
    if st is None:
        # the violation was raised while the run was being set up (e.g. during a long-session preroll)
        res["digest"] = "setup"
        res["stats"] = dict(prop.summary(prop.make_empty()), nontrivial=False) if collect else {}
        return res
    res["digest"] = prop.digest(st)
    res["stats"] = prop.summary(st) if collect else {}
    return res


def ddmin(prop, ops, class_key, budget=300):
    """Delta debugging over ops[1:] preserving the violation's class_key."""
    head, body = ops[0], list(ops[1:])
    tries = [0]
    t_end = time.time() + float(os.environ.get("SIMLDAP_SHRINK_SECONDS", "45"))

    def fails(cand):
        if tries[0] >= budget or time.time() > t_end:
            return False
        tries[0] += 1
        try:
            r = execute(prop, [head] + cand, collect=False)
        except HarnessError:
            return False
        return r["violation"] is not None and r["violation"].class_key == class_key

    n = 2
    while len(body) >= 2 and tries[0] < budget:
        chunk = max(1, len(body) // n)
        reduced = False
        for i in range(0, len(body), chunk):
            cand = body[:i] + body[i + chunk :]
            if cand and fails(cand):
                body = cand
                n = max(n - 1, 2)
                reduced = True
                break
        if not reduced:
            if chunk == 1:
                break
            n = min(n * 2, len(body))
    # single-op removal pass
    i = 0
    while i < len(body) and tries[0] < budget:
        cand = body[:i] + body[i + 1 :]
        if cand and fails(cand):
            body = cand
        else:
            i += 1
    body = prop.simplify(head, body, fails) if hasattr(prop, "simplify") else body
    return [head] + body, tries[0]


# ------------------------------------------------------------------ worker


def _worker(args):
    prop_id, tier, base, start, count, steps, timeout = args
    faulthandler.dump_traceback_later(timeout, exit=True)
    from .props import load

    prop = load(prop_id, tier)
    agg = prop.new_agg()
    viols = []
    harness = []
    import signal

    class _RunTimeout(BaseException):  # not an Exception: no "except Exception" in a check may swallow the watchdog
        pass

    where = {}

    def _on_alarm(signum, frame):
        where["stack"] = "".join(traceback.format_stack(frame, limit=12))
        raise _RunTimeout()

    signal.signal(signal.SIGALRM, _on_alarm)
    per_run = int(os.environ.get("SIMLDAP_RUN_TIMEOUT", "180"))
    for idx in range(start, start + count):
        seed = derive_seed(base, prop_id, tier, idx)
        rng = random.Random(seed)
        try:
            prop.begin_run(idx, seed)
            signal.alarm(per_run)
            try:
                r = execute(prop, None, rng=rng, max_steps=steps)
            finally:
                signal.alarm(0)
        except _RunTimeout:
            harness.append({"idx": idx, "seed": seed, "err": "run exceeded %d s of wall clock (step caps do not bound a call that never "
                            "returns): reported as a harness error, not as a verdict; it was executing:\n%s" % (per_run, where.get("stack", "?"))})
            break
        except HarnessError as e:
            harness.append({"idx": idx, "seed": seed, "err": "HarnessError: %s" % e})
            continue
        except Exception:  # noqa: BLE001
            harness.append({"idx": idx, "seed": seed, "err": traceback.format_exc()})
            continue
        prop.fold(agg, r, idx, seed)
        if r["violation"] is not None:
            v = r["violation"]
            if len([x for x in viols if x["class_key"] == v.class_key]) < 1 and len(viols) < 6:
                viols.append({"idx": idx, "seed": seed, "class_key": v.class_key, "detail": v.detail, "ops": r["ops"],
                              "at": r["at"]})
            agg["viol_counts"][v.class_key] = agg["viol_counts"].get(v.class_key, 0) + 1
    faulthandler.cancel_dump_traceback_later()
    return agg, viols, harness


# ------------------------------------------------------------------ known findings


def load_known():
    known = []
    if os.path.exists(KNOWN):
        for line in open(KNOWN, encoding="utf-8"):
            line = line.strip()
            if line.startswith("known:"):
                parts = line[6:].split(None, 2)
                d = {}
                for p in parts[:2]:
                    if "=" in p:
                        k, v = p.split("=", 1)
                        d[k] = v
                d["text"] = parts[2] if len(parts) > 2 else ""
                known.append(d)
    return known


def repo_sha():
    try:
        return subprocess.run(["git", "-C", "/repo", "rev-parse", "HEAD"], capture_output=True, text=True, timeout=20).stdout.strip()
    except Exception:  # noqa: BLE001
        return "?"


# ------------------------------------------------------------------ main driver


def run_check(prop_id, tier, base_seed, workers=None, runs=None):
    from .props import load

    t0 = time.time()
    prop = load(prop_id, tier)
    total = runs if runs is not None else prop.runs(tier)
    steps = prop.max_steps(tier)
    workers = workers or min(16, os.cpu_count() or 4)
    per = max(1, min(prop.batch(tier), (total + workers - 1) // workers))
    tasks = []
    i = 0
    timeout = prop.task_timeout(tier)
    while i < total:
        c = min(per, total - i)
        tasks.append((prop_id, tier, base_seed, i, c, steps, timeout))
        i += c
    agg = prop.new_agg()
    viols = []
    harness = []
    ctx = mp.get_context("fork")
    wall_cap = prop.wall_cap(tier)
    try:
        with cf.ProcessPoolExecutor(max_workers=workers, mp_context=ctx) as ex:
            futs = [ex.submit(_worker, t) for t in tasks]
            for f in cf.as_completed(futs, timeout=wall_cap):
                a, v, h = f.result()
                prop.merge(agg, a)
                viols.extend(v)
                harness.extend(h)
    except cf.TimeoutError:
        print("HARNESS-ERROR: wall clock cap %ss exceeded" % wall_cap)
        os._exit(2)
    except cf.process.BrokenProcessPool:
        print("HARNESS-ERROR: a worker died (hang or crash); see stderr")
        os._exit(2)
    if harness:
        for h in harness[:5]:
            print("HARNESS-ERROR run=%s seed=%s\n%s" % (h["idx"], h["seed"], h["err"]))
        # never exit 0 now; violations found by the runs that did finish are still reported (exit 1), otherwise exit 2
    # one representative per class key, lowest run index first (deterministic)
    viols.sort(key=lambda x: x["idx"])
    seen = {}
    for v in viols:
        seen.setdefault(v["class_key"], v)
    known = [k for k in load_known() if k.get("property") == prop_id]
    exit_code = 0
    replays = REPLAYS if not os.environ.get("SIMLDAP_NO_EVIDENCE") else os.path.join(OUT, "scratch-replays")
    os.makedirs(replays, exist_ok=True)
    n_viol = 0
    reported = []
    for ck, v in sorted(seen.items()):
        kn = next((k for k in known if k.get("class") == ck), None)
        ops, tries = ddmin(prop, v["ops"], ck)
        chk = execute(prop, ops, collect=False)
        path = os.path.join(replays, "%s-%d.json" % (prop_id, v["seed"]))
        doc = {"property": prop_id, "class_key": ck, "detail": (chk["violation"].detail if chk["violation"] else v["detail"]),
               "verif_seed": base_seed, "tier": tier, "run_index": v["idx"], "run_seed": v["seed"],
               "repo_sha": repo_sha(), "original_len": len(v["ops"]), "shrink_tries": tries,
               "at": chk["at"], "digest": chk["digest"], "ops": ops}
        with open(path, "w") as fh:
            json.dump(doc, fh, indent=1, default=str)
        if kn is not None:
            print("KNOWN-FINDING: property=%s class=%s %s (runs hitting it: %d; example replay=%s)" % (
                prop_id, ck, kn["text"], agg["viol_counts"].get(ck, 0), path))
        else:
            n_viol += 1
            exit_code = 1
            print("VIOLATION property=%s replay=%s" % (prop_id, path))
            print("  class=%s runs_hitting=%d shrunk %d -> %d ops; detail: %s" % (
                ck, agg["viol_counts"].get(ck, 0), len(v["ops"]) - 1, len(ops) - 1, doc["detail"][:300]))
        reported.append(ck)
    wall = time.time() - t0
    if harness:
        print("%s %s: %d run(s) ended in a harness error (see above); violations=%d - no evidence written" % (prop_id, tier, len(harness), n_viol))
        return 1 if exit_code == 1 else 2
    if not os.environ.get("SIMLDAP_NO_EVIDENCE"):
        write_evidence(prop, prop_id, tier, base_seed, agg, wall, n_viol, total, workers)
    warn = prop.warnings(agg, tier)
    for w in warn:
        print("WARNING: %s" % w)
    print("%s %s: runs=%d events=%d nontrivial_distinct=%d violations=%d known=%d diverged=%d wall=%.1fs" % (
        prop_id, tier, agg["runs"], agg["events"], len(agg["distinct"]), n_viol, len(reported) - n_viol, agg["diverged"], wall))
    return exit_code


def write_evidence(prop, prop_id, tier, base_seed, agg, wall, n_viol, total, workers):
    os.makedirs(EVIDENCE, exist_ok=True)
    cov = {
        "evaluations": agg["runs"],
        "distinct_nontrivial": len(agg["distinct"]),
        "rule": prop.RULE,
        "samples": agg["samples"][:3],
        "events_executed": agg["events"],
        "runs_per_hour": int(agg["runs"] / wall * 3600) if wall > 0 else 0,
        "run_index_range": [0, total - 1],
        "run_seed_derivation": "sha256(VERIF_SEED:property:tier:index)[:8]",
        "workers": workers,
        "nontrivial_runs": agg["nontrivial"],
        "diverged_outside_property": agg["diverged"],
        "diverged_samples": agg["diverged_samples"][:3],
        "premise_discarded": agg.get("discarded", 0),
        "faults_fired": dict(sorted(agg["faults"].items())),
        "fault_kinds_not_applicable": ["disk errors / torn writes / full disk", "clock skew and jumps",
                                       "crash-restart with durable state", "multi-node partitions",
                                       "allocation and syscall failures"],
        "reach_probes": dict(sorted(agg["reach"].items())),
        "matrix": dict(sorted(agg["matrix"].items())),
        "personalities": dict(sorted(agg["personalities"].items())),
        "distinct_state_signatures": len(agg["sigs"]),
        "distinct_event_trigrams": len(agg["trigrams"]),
        "simulated_time_units": agg.get("vtime", 0),
        "simulated_time_note": "the library has no clock; virtual time only shapes which interleavings are likely",
        "violation_classes_seen": dict(sorted(agg["viol_counts"].items())),
        "components": prop.COMPONENTS,
        "repo_sha": repo_sha(),
    }
    doc = {
        "property_id": prop_id,
        "tier": tier,
        "seed": base_seed,
        "level": prop.LEVEL,
        "coverage": cov,
        "assumptions": prop.ASSUMPTIONS,
        "wall_s": round(wall, 2),
        "violations": n_viol,
    }
    tmp = os.path.join(EVIDENCE, "%s.json.tmp" % prop_id)
    with open(tmp, "w") as fh:
        json.dump(doc, fh, indent=1, default=str)
    os.replace(tmp, os.path.join(EVIDENCE, "%s.json" % prop_id))


def replay_file(path):
    from .props import load

    doc = json.load(open(path))
    prop = load(doc["property"], doc.get("tier", "quick"))
    r = execute(prop, doc["ops"], collect=False)
    if r["violation"] is not None:
        v = r["violation"]
        same = v.class_key == doc["class_key"] and r["at"] == doc.get("at")
        print("VIOLATION property=%s replay=%s" % (doc["property"], path))
        print("  class=%s at_op=%s digest=%s%s" % (v.class_key, r["at"], r["digest"][:16],
                                                  "" if same else "  (differs from recorded class/index: %s at %s)" % (doc["class_key"], doc.get("at"))))
        print("  detail: %s" % v.detail[:500])
        return 1
    print("did not reproduce on this tree (property=%s class=%s)%s" % (
        doc["property"], doc["class_key"], " diverged: %s" % r["diverged"] if r["diverged"] else ""))
    return 0
