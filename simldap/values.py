"""Abstract values <-> sansldap objects.

* build_*   : abstract (JSON) value  -> library object (for API call arguments)
* canon_*   : library object         -> abstract value (public dataclass fields only)
* expected_message(method, args, id) : the abstract message a call puts on the wire, derived
  from the API docstrings (never from the library's encoder)
* norm()    : the documented relaxations for value comparison (DESIGN 3.2)
* Gen       : PRNG-driven generators of abstract values
"""
from __future__ import annotations

import dataclasses

import sansldap

from . import customtypes as ct
from .rfc4511 import NOTICE_OID

_FILTER_CLS = {
    "And": "FilterAnd",
    "Or": "FilterOr",
    "Not": "FilterNot",
    "Equality": "FilterEquality",
    "Substrings": "FilterSubstrings",
    "GreaterOrEqual": "FilterGreaterOrEqual",
    "LessOrEqual": "FilterLessOrEqual",
    "Present": "FilterPresent",
    "ApproxMatch": "FilterApproxMatch",
    "ExtensibleMatch": "FilterExtensibleMatch",
}
_CLS_FILTER = {v: k for k, v in _FILTER_CLS.items()}


def _hx(b):
    return None if b is None else bytes(b).hex()


def _bx(h):
    return None if h is None else bytes.fromhex(h)


# ------------------------------------------------------------------ build (abstract -> library)


def build_filter(f):
    if f is None:
        return None
    # iterative post-order build so that deep abstract filters cannot hit the recursion limit
    out = {}
    stack = [(f, False)]
    while stack:
        node, done = stack.pop()
        t = node["t"]
        if t in ("And", "Or"):
            if not done:
                stack.append((node, True))
                for ch in node["filters"]:
                    stack.append((ch, False))
                continue
            cls = getattr(sansldap, _FILTER_CLS[t])
            out[id(node)] = cls(filters=[out[id(ch)] for ch in node["filters"]])
        elif t == "Not":
            if not done:
                stack.append((node, True))
                stack.append((node["filter"], False))
                continue
            out[id(node)] = sansldap.FilterNot(filter=out[id(node["filter"])])
        elif t in ("Equality", "GreaterOrEqual", "LessOrEqual", "ApproxMatch"):
            cls = getattr(sansldap, _FILTER_CLS[t])
            out[id(node)] = cls(attribute=node["attribute"], value=_bx(node["value"]))
        elif t == "Substrings":
            out[id(node)] = sansldap.FilterSubstrings(
                attribute=node["attribute"],
                initial=_bx(node["initial"]),
                any=[_bx(a) for a in node["any"]],
                final=_bx(node["final"]),
            )
        elif t == "Present":
            out[id(node)] = sansldap.FilterPresent(attribute=node["attribute"])
        elif t == "ExtensibleMatch":
            out[id(node)] = sansldap.FilterExtensibleMatch(
                rule=node["rule"],
                attribute=node["attribute"],
                value=_bx(node["value"]),
                dn_attributes=node["dn_attributes"],
            )
        elif t == "CustomFilter":
            out[id(node)] = ct.CustomFilter(value=node["value"])
        elif t == "EdgeFilter":
            out[id(node)] = ct.EDGE_FILTERS[int(node["n"])](value=node["value"])
        else:
            raise ValueError("unknown abstract filter %r" % t)
    return out[id(f)]


def build_control(c):
    t = c["t"]
    if t == "Control":
        return sansldap.LDAPControl(c["type"], c["critical"], _bx(c["value"]))
    if t == "Paged":
        return sansldap.PagedResultControl(critical=c["critical"], size=c["size"], cookie=_bx(c["cookie"]))
    if t == "ShowDeleted":
        return sansldap.ShowDeletedControl(critical=c["critical"])
    if t == "ShowDeactivatedLink":
        return sansldap.ShowDeactivatedLinkControl(critical=c["critical"])
    if t == "CustomControl":
        return ct.CustomControl(critical=c["critical"], size=c["size"])
    raise ValueError("unknown abstract control %r" % t)


def build_controls(cs):
    if cs is None:
        return None
    return [build_control(c) for c in cs]


def build_auth(a):
    t = a["t"]
    if t == "Simple":
        return sansldap.SimpleCredential(password=a["password"])
    if t == "Sasl":
        return sansldap.SaslCredential(mechanism=a["mechanism"], credentials=_bx(a["credentials"]))
    if t == "CustomAuth":
        return ct.CustomAuth(username=a["username"], password=a["password"])
    if t == "EdgeAuth":
        return ct.EDGE_AUTHS[int(a["n"])](token=_bx(a["token"]))
    raise ValueError("unknown abstract credential %r" % t)


def build_code(code):
    return sansldap.LDAPResultCode(code)


CLIENT_SEND = ("bind_simple", "bind_sasl", "bind", "extended_request", "search_request", "unbind")
SERVER_SEND = (
    "bind_response",
    "extended_response",
    "search_result_entry",
    "search_result_reference",
    "search_result_done",
    "unbind",
)
REGISTER = ("register_control", "register_filter", "register_auth_credential")


def _drop_omitted(kw, a):
    """Keyword arguments named in a["omit"] are not passed at all, so that the method's own default is used."""
    for k in a.get("omit") or ():
        kw.pop(k, None)
    return kw


def build_call(method, a, pool=None):
    args, kw = _build_call(method, a, pool)
    return args, _drop_omitted(kw, a)


def _build_call(method, a, pool=None):
    """Return (args, kwargs) for session.<method> from abstract args `a`.

    `pool`: per-world dict of library objects that the simulated application keeps and reuses across calls (an
    application may build a PartialAttribute once and update its `values` list in place between calls)."""
    if method == "bind_simple":
        return (), dict(dn=a.get("dn"), password=a.get("password"), controls=build_controls(a.get("controls")))
    if method == "bind_sasl":
        return (a["mechanism"],), dict(dn=a.get("dn"), cred=_bx(a.get("cred")), controls=build_controls(a.get("controls")))
    if method == "bind":
        return (a["dn"], build_auth(a["auth"])), dict(controls=build_controls(a.get("controls")))
    if method == "extended_request":
        name = a["name"]
        if a.get("name_enum"):
            try:
                name = sansldap.ExtendedOperations(name)
            except ValueError:
                pass
        return (name,), dict(value=_bx(a.get("value")), controls=build_controls(a.get("controls")))
    if method == "search_request":
        return (), dict(
            base_object=a.get("base"),
            scope=sansldap.SearchScope(a.get("scope", 2)) if a.get("enums") else a.get("scope", 2),
            dereferencing_policy=sansldap.DereferencingPolicy(a.get("deref", 0)) if a.get("enums") else a.get("deref", 0),
            size_limit=a.get("size_limit", 0),
            time_limit=a.get("time_limit", 0),
            types_only=a.get("types_only", False),
            filter=build_filter(a.get("filter")),
            attributes=a.get("attributes"),
            controls=build_controls(a.get("controls")),
        )
    if method == "unbind":
        return (), {}
    if method == "bind_response":
        return (a["id"],), dict(
            sasl_creds=_bx(a.get("sasl_creds")),
            result_code=build_code(a.get("code", 0)),
            matched_dn=a.get("matched_dn"),
            diagnostics_message=a.get("diag"),
            controls=build_controls(a.get("controls")),
        )
    if method == "extended_response":
        name = a.get("name")
        if a.get("name_enum") and name is not None:
            try:
                name = sansldap.ExtendedOperations(name)  # the enum member instead of the plain OID string
            except ValueError:
                pass
        return (a["id"],), dict(
            name=name,
            value=_bx(a.get("value")),
            result_code=build_code(a.get("code", 0)),
            matched_dn=a.get("matched_dn"),
            diagnostics_message=a.get("diag"),
            controls=build_controls(a.get("controls")),
        )
    if method == "search_result_entry":
        attrs = []
        for x in a["attributes"]:
            key = x.get("pool")
            if pool is not None and key is not None and key in pool and pool[key].name == x["name"]:
                obj = pool[key]
                obj.values[:] = [_bx(v) for v in x["values"]]  # same object as in an earlier call, list updated in place
            else:
                obj = sansldap.PartialAttribute(name=x["name"], values=[_bx(v) for v in x["values"]])
                if pool is not None and key is not None:
                    pool[key] = obj
            attrs.append(obj)
        return (a["id"], a["object_name"], attrs), dict(controls=build_controls(a.get("controls")))
    if method == "search_result_reference":
        return (a["id"], list(a["uris"])), dict(controls=build_controls(a.get("controls")))
    if method == "search_result_done":
        return (a["id"],), dict(
            result_code=build_code(a.get("code", 0)),
            matched_dn=a.get("matched_dn"),
            diagnostics_message=a.get("diag"),
            controls=build_controls(a.get("controls")),
        )
    if method == "register_control":
        return (ct.BY_NAME[a["type"]],), {}
    if method == "register_filter":
        return (ct.BY_NAME[a["type"]],), {}
    if method == "register_auth_credential":
        return (ct.BY_NAME[a["type"]],), {}
    raise ValueError("unknown method %r" % method)


# ------------------------------------------------------------------ expected wire message of a call


def _res(a):
    return {"code": a.get("code", 0), "matched_dn": a.get("matched_dn") or "", "diag": a.get("diag") or "", "referrals": None}


def expected_message(method, a, mid):
    """Abstract message that a successful `method(a)` must put on the wire (per the docstrings)."""
    ctr = list(a.get("controls") or [])
    if method == "bind_simple":
        return {"t": "BindRequest", "id": mid, "controls": ctr, "version": a.get("_version", 3), "name": a.get("dn") or "",
                "auth": {"t": "Simple", "password": a.get("password") or ""}}
    if method == "bind_sasl":
        return {"t": "BindRequest", "id": mid, "controls": ctr, "version": a.get("_version", 3), "name": a.get("dn") or "",
                "auth": {"t": "Sasl", "mechanism": a["mechanism"], "credentials": a.get("cred")}}
    if method == "bind":
        return {"t": "BindRequest", "id": mid, "controls": ctr, "version": a.get("_version", 3), "name": a["dn"], "auth": a["auth"]}
    if method == "extended_request":
        return {"t": "ExtendedRequest", "id": mid, "controls": ctr, "name": a["name"], "value": a.get("value")}
    if method == "search_request":
        return {"t": "SearchRequest", "id": mid, "controls": ctr, "base": a.get("base") or "",
                "scope": a.get("scope", 2), "deref": a.get("deref", 0), "size_limit": a.get("size_limit", 0),
                "time_limit": a.get("time_limit", 0), "types_only": a.get("types_only", False),
                "filter": a.get("filter") or {"t": "Present", "attribute": "objectClass"},
                "attributes": list(a.get("attributes") or [])}
    if method == "unbind":
        return {"t": "UnbindRequest", "id": 0, "controls": []}
    if method == "bind_response":
        return {"t": "BindResponse", "id": mid, "controls": ctr, "result": _res(a), "sasl_creds": a.get("sasl_creds")}
    if method == "extended_response":
        return {"t": "ExtendedResponse", "id": mid, "controls": ctr, "result": _res(a), "name": a.get("name"),
                "value": a.get("value")}
    if method == "search_result_entry":
        return {"t": "SearchResultEntry", "id": mid, "controls": ctr, "object_name": a["object_name"],
                "attributes": [{"name": x["name"], "values": list(x["values"])} for x in a["attributes"]]}
    if method == "search_result_reference":
        return {"t": "SearchResultReference", "id": mid, "controls": ctr, "uris": list(a["uris"])}
    if method == "search_result_done":
        return {"t": "SearchResultDone", "id": mid, "controls": ctr, "result": _res(a)}
    raise ValueError(method)


# ------------------------------------------------------------------ canon (library -> abstract)


def canon_filter(f):
    # iterative, post-order
    out = {}
    stack = [(f, False)]
    while stack:
        node, done = stack.pop()
        name = type(node).__name__
        t = _CLS_FILTER.get(name)
        if t in ("And", "Or"):
            if not done:
                stack.append((node, True))
                for ch in node.filters:
                    stack.append((ch, False))
                continue
            out[id(node)] = {"t": t, "filters": [out[id(ch)] for ch in node.filters]}
        elif t == "Not":
            if not done:
                stack.append((node, True))
                stack.append((node.filter, False))
                continue
            out[id(node)] = {"t": "Not", "filter": out[id(node.filter)]}
        elif t in ("Equality", "GreaterOrEqual", "LessOrEqual", "ApproxMatch"):
            out[id(node)] = {"t": t, "attribute": node.attribute, "value": _hx(node.value)}
        elif t == "Substrings":
            out[id(node)] = {"t": t, "attribute": node.attribute, "initial": _hx(node.initial),
                             "any": [_hx(a) for a in node.any], "final": _hx(node.final)}
        elif t == "Present":
            out[id(node)] = {"t": t, "attribute": node.attribute}
        elif t == "ExtensibleMatch":
            out[id(node)] = {"t": t, "rule": node.rule, "attribute": node.attribute, "value": _hx(node.value),
                             "dn_attributes": bool(node.dn_attributes)}
        elif name == "CustomFilter":
            out[id(node)] = {"t": "CustomFilter", "value": node.value}
        elif name.startswith("EdgeFilter"):
            out[id(node)] = {"t": "EdgeFilter", "n": int(node.filter_id), "value": node.value}
        else:
            out[id(node)] = {"t": "?" + name, "repr": _generic(node)}
    return out[id(f)]


def _generic(obj):
    if dataclasses.is_dataclass(obj) and not isinstance(obj, type):
        return {f.name: _generic(getattr(obj, f.name)) for f in dataclasses.fields(obj)}
    if isinstance(obj, (bytes, bytearray, memoryview)):
        return bytes(obj).hex()
    if isinstance(obj, (list, tuple)):
        return [_generic(x) for x in obj]
    if isinstance(obj, bool) or obj is None or isinstance(obj, str):
        return obj
    if isinstance(obj, int):
        return int(obj)
    return repr(obj)


def canon_control(c):
    name = type(c).__name__
    if name == "LDAPControl":
        return {"t": "Control", "type": c.control_type, "critical": bool(c.critical), "value": _hx(c.value)}
    if name == "PagedResultControl":
        return {"t": "Paged", "critical": bool(c.critical), "size": int(c.size), "cookie": _hx(c.cookie)}
    if name == "ShowDeletedControl":
        return {"t": "ShowDeleted", "critical": bool(c.critical)}
    if name == "ShowDeactivatedLinkControl":
        return {"t": "ShowDeactivatedLink", "critical": bool(c.critical)}
    if name == "CustomControl":
        return {"t": "CustomControl", "critical": bool(c.critical), "size": int(c.size)}
    return {"t": "?" + name, "repr": _generic(c)}


def canon_auth(a):
    name = type(a).__name__
    if name == "SimpleCredential":
        return {"t": "Simple", "password": a.password}
    if name == "SaslCredential":
        return {"t": "Sasl", "mechanism": a.mechanism, "credentials": _hx(a.credentials)}
    if name == "CustomAuth":
        return {"t": "CustomAuth", "username": a.username, "password": a.password}
    if name.startswith("EdgeAuth"):
        return {"t": "EdgeAuth", "n": int(a.auth_id), "token": _hx(a.token)}
    if name == "SubSimple":
        return {"t": "SubSimple", "password": a.password}
    return {"t": "?" + name, "repr": _generic(a)}


def canon_result(r):
    # .value, not int(): for result codes unknown to the library int(member) is 0 (see DESIGN 7, "noticed")
    return {"code": int(getattr(r.result_code, "value", r.result_code)), "matched_dn": r.matched_dn, "diag": r.diagnostics_message,
            "referrals": None if r.referrals is None else list(r.referrals)}


def canon_msg(m):
    name = type(m).__name__
    out = {"t": name, "id": int(m.message_id), "controls": [canon_control(c) for c in (m.controls or [])]}
    if name == "BindRequest":
        out.update(version=int(m.version), name=m.name, auth=canon_auth(m.authentication))
    elif name == "BindResponse":
        out.update(result=canon_result(m.result), sasl_creds=_hx(m.server_sasl_creds))
    elif name == "UnbindRequest":
        pass
    elif name == "SearchRequest":
        out.update(base=m.base_object, scope=int(m.scope), deref=int(m.deref_aliases), size_limit=int(m.size_limit),
                   time_limit=int(m.time_limit), types_only=bool(m.types_only), filter=canon_filter(m.filter),
                   attributes=list(m.attributes))
    elif name == "SearchResultEntry":
        out.update(object_name=m.object_name,
                   attributes=[{"name": a.name, "values": [_hx(v) for v in a.values]} for a in m.attributes])
    elif name == "SearchResultDone":
        out.update(result=canon_result(m.result))
    elif name == "SearchResultReference":
        out.update(uris=list(m.uris))
    elif name == "ExtendedRequest":
        out.update(name=m.name, value=_hx(m.value))
    elif name == "ExtendedResponse":
        out.update(result=canon_result(m.result), name=m.name, value=_hx(m.value))
    else:
        out["repr"] = _generic(m)
    return out


def norm(m):
    """Apply the documented comparison relaxations to an abstract message (returns a copy)."""
    m = dict(m)
    if "result" in m:
        r = dict(m["result"])
        if not r.get("referrals"):
            r["referrals"] = None
        m["result"] = r
    m["controls"] = list(m.get("controls") or [])
    return m


def light_of(m):
    """(kind, id) summary of a library message."""
    return [type(m).__name__, int(m.message_id)]


# ------------------------------------------------------------------ generators


KNOWN_CODES = [0, 1, 2, 3, 4, 7, 8, 10, 11, 12, 13, 16, 32, 34, 48, 49, 50, 51, 53, 80]
UNKNOWN_CODES = [9, 15, 35, 70, 81, 118, 4096, 8235]
# unknown codes on the edges of the integer encoding: 5+ content octets, negative, congruent to known codes modulo 2**8/16/32
EDGE_CODES = [2 ** 32 + 14, 2 ** 40 + 14, -4294967282, 2 ** 32, 4294967295, -1, 2 ** 31, 256 + 14, 65536 + 14, 2 ** 32 + 49,
              -2147483648, 2 ** 63, 255, 256, -128]
GENERIC_OIDS = ["1.2.826.0.1.3344810.2.3", "2.16.840.1.113730.3.4.2", "1.3.6.1.1.12", "1.1", "9.9.9.9.1"]
ATTRS = ["cn", "objectClass", "sAMAccountName", "member;range=0-*", "1.2.840.113556.1.4.221", "userCertificate;binary",
         "o", "dc", "memberOf", "MEMBEROF", "memberof", "CN", "Cn", "OBJECTCLASS"]
# octet strings that look like something else: a TLS record, an HTTP request, BER of a whole LDAPMessage, long-form lengths,
# a filter string, NULs - values are opaque, whatever they contain
MAGIC = [bytes.fromhex("160301020001000200"), bytes.fromhex("1603"), b"GET / HTTP/1.1\r\n\r\n", bytes.fromhex("300c020101600702010304008000"),
         bytes.fromhex("3084000000"), bytes.fromhex("a084ffffffff"), bytes.fromhex("308400000005020101"), b"(&(cn=*)(!(sn=x)))",
         bytes.fromhex("0000000000"), bytes.fromhex("ff" * 6), bytes.fromhex("8000"), bytes.fromhex("020100")]
TEXTS = ["", "a", "cn=admin,dc=example,dc=com", "Üser Näme", "名前", "x" * 7, "(paren)*\\", "uid=jdoe,ou=People,o=x",
         " ", "\x00nul", "dc=é", "{node=ldap01} busy", "{0} {}", "100%s %d%%", "{", "}}", "%(x)s", "\r\nX-Injected: 1", "${jndi:ldap://x}"]
MECHS = ["GSSAPI", "GSS-SPNEGO", "EXTERNAL", "DIGEST-MD5", "PLAIN", ""]
EXT_OIDS = ["1.3.6.1.4.1.1466.20037", "1.3.6.1.4.1.4203.1.11.3", "1.3.6.1.4.1.4203.1.11.1", "1.2.3.4.5"]
INT_OK = [0, 1, 2, 100, 127, 128, 255, 256, 1000, 32767, 32768, 65535, 65536, 16777215, 16777216, 2147483647, 0x1603, 0x160301,
          2147483646]
INT_ODD = [-1, -127, -128, -129, -255, -256, -32768, -32769, -65536, -65537, -16777216, -2147483648, 2147483648,
           4294967296, -4294967296, 2 ** 63]
BOUNDARY_LENS = [0, 1, 2, 5, 16, 100, 120, 125, 126, 127, 128, 129, 130, 200, 250, 253, 254, 255, 256, 257, 300]


class Gen:
    """All randomness comes from the single run PRNG handed in."""

    def __init__(self, rng, big=0.08, huge=0.0, odd_ints=False, customs=(), rich=True, bad_text=0.0):
        self.r = rng
        self.mega = 0.0  # share of the "huge" lengths that are about 1 MiB
        self.invalid_known = False  # byzantine peers only: the paged-results control with a missing / malformed value
        self.odd_known = False  # set by byzantine peers only: known value-less controls carrying a value
        self.versions = False  # binds naming another protocol version than 3
        self.bad_text = bad_text  # probability of a str that cannot be encoded (lone surrogate): the send call must fail cleanly
        self.big = big
        self.huge = huge
        self.odd_ints = odd_ints
        self.customs = set(customs)
        self.rich = rich

    def length(self):
        x = self.r.random()
        if x < self.huge:
            if self.r.random() < self.mega:
                return self.r.choice([1048575, 1048576, 1048577])
            return self.r.choice([65400, 65535, 65536, 65537, 70000])
        if x < self.huge + self.big:
            return self.r.choice(BOUNDARY_LENS[5:])
        return self.r.choice([0, 1, 2, 3, 5, 8, 13])

    def blob(self):
        n = self.length()
        r = self.r
        mode = r.randrange(5)
        if mode == 4:
            m = r.choice(MAGIC)
            pad = max(0, n - len(m))
            k = r.randrange(pad + 1)
            return (b"\x41" * k + m + b"\x42" * (pad - k)).hex()
        if mode == 0:
            return bytes(r.getrandbits(8) for _ in range(min(n, 64))).ljust(n, b"\xa5").hex() if n else ""
        if mode == 1:
            return (b"\x00" * n).hex()
        if mode == 2:
            return (b"\xff" * n).hex()
        return (bytes(range(256)) * (n // 256 + 1))[:n].hex()

    def opt_blob(self, p_none=0.3):
        return None if self.r.random() < p_none else self.blob()

    def text(self):
        r = self.r
        if self.bad_text and r.random() < self.bad_text:
            return r.choice(["\udc80", "cn=\udcff,dc=x", "ok\ud800"])
        if r.random() < self.big:
            n = self.length()
            base = r.choice(["x", "é", "ab"])
            return (base * n)[:n]
        return r.choice(TEXTS)

    def opt_text(self, p_none=0.3):
        return None if self.r.random() < p_none else self.text()

    def int_(self):
        if self.odd_ints and self.r.random() < 0.3:
            return self.r.choice(INT_ODD)
        return self.r.choice(INT_OK)

    def code(self, allow14=False):
        r = self.r
        x = r.random()
        if x < 0.5:
            return 0
        if x < 0.82:
            return r.choice(KNOWN_CODES)
        if x < 0.94:
            return r.choice(UNKNOWN_CODES)
        return r.choice(EDGE_CODES)

    def control(self):
        r = self.r
        k = r.randrange(6 if "CustomControl" in self.customs else 5)
        crit = r.random() < 0.4
        if k == 0 or k == 4:
            return {"t": "Control", "type": r.choice(GENERIC_OIDS), "critical": crit, "value": self.opt_blob(0.4)}
        if self.invalid_known and r.random() < 0.12:
            # the paged-results control with an absent, empty or malformed value: an invalid message
            return {"t": "Control", "type": "1.2.840.113556.1.4.319", "critical": crit, "value": r.choice([None, None, "", "3000", "30050201"])}
        if self.odd_known and r.random() < 0.25:
            # a value-less known control that a (foreign) peer nevertheless sends with a value
            return {"t": "Control", "type": r.choice(["1.2.840.113556.1.4.417", "1.2.840.113556.1.4.2065"]), "critical": crit,
                    "value": r.choice(["", "00", "3000", "deadbeef"])}
        if k == 1:
            return {"t": "Paged", "critical": crit, "size": r.choice(INT_OK), "cookie": self.blob()}
        if k == 2:
            return {"t": "ShowDeleted", "critical": crit}
        if k == 3:
            return {"t": "ShowDeactivatedLink", "critical": crit}
        return {"t": "CustomControl", "critical": crit, "size": r.choice([0, 1, 255, 256, 65536, 4294967295])}

    def controls(self):
        r = self.r
        x = r.random()
        if not self.rich or x < 0.6:
            return None if r.random() < 0.5 else []
        return [self.control() for _ in range(r.choice([1, 1, 2, 3]))]

    def filter(self, depth=0):
        r = self.r
        kinds = ["Equality", "Substrings", "GreaterOrEqual", "LessOrEqual", "Present", "ApproxMatch", "ExtensibleMatch"]
        if "CustomFilter" in self.customs:
            kinds.append("CustomFilter")
        edge_f = [c for c in self.customs if c.startswith("EdgeFilter")]
        if edge_f and r.random() < 0.25:
            return {"t": "EdgeFilter", "n": int(r.choice(sorted(edge_f))[len("EdgeFilter"):]), "value": self.text()}
        if depth < 4 and r.random() < (0.45 if depth == 0 else 0.3):
            t = r.choice(["And", "Or", "Not"])
            if t == "Not":
                return {"t": "Not", "filter": self.filter(depth + 1)}
            return {"t": t, "filters": [self.filter(depth + 1) for _ in range(r.choice([0, 1, 2, 3]))]}
        t = r.choice(kinds)
        attr = r.choice(ATTRS)
        if t in ("Equality", "GreaterOrEqual", "LessOrEqual", "ApproxMatch"):
            return {"t": t, "attribute": attr, "value": self.blob()}
        if t == "Substrings":
            return {"t": t, "attribute": attr, "initial": self.opt_blob(0.5),
                    "any": [self.blob() for _ in range(r.choice([0, 0, 1, 2]))], "final": self.opt_blob(0.5)}
        if t == "Present":
            return {"t": t, "attribute": attr}
        if t == "ExtensibleMatch":
            return {"t": t, "rule": r.choice([None, "caseExactMatch", "2.5.13.5"]),
                    "attribute": r.choice([None, attr]), "value": self.blob(), "dn_attributes": r.random() < 0.4}
        return {"t": "CustomFilter", "value": self.text()}

    # ---- API call argument sets

    def a_bind_simple(self):
        return {"dn": self.opt_text(), "password": self.opt_text(), "controls": self.controls()}

    def a_bind_sasl(self):
        return {"mechanism": self.r.choice(MECHS), "dn": self.opt_text(0.7), "cred": self.opt_blob(),
                "controls": self.controls()}

    def a_bind_custom(self):
        return {"dn": self.text(), "auth": {"t": "CustomAuth", "username": self.r.choice(["u", "", "jörg"]),
                                            "password": self.r.choice(["p", "", "a:b"])}, "controls": self.controls()}

    def a_bind_any(self):
        m, a = self._a_bind_any()
        if self.versions and self.r.random() < 0.2:
            # the session's public `version` attribute is set by the application before the bind (LDAPv2 peers exist)
            a["_version"] = 2  # LDAPv2 and LDAPv3 are the versions that exist; nothing is claimed about others
        return m, a

    def _a_bind_any(self):
        r = self.r
        x = r.random()
        edge_a = [c for c in self.customs if c.startswith("EdgeAuth")]
        if edge_a and r.random() < 0.25:
            return "bind", {"dn": self.text(), "auth": {"t": "EdgeAuth", "n": int(r.choice(sorted(edge_a))[len("EdgeAuth"):]), "token": self.blob()},
                            "controls": self.controls()}
        if "CustomAuth" in self.customs and x < 0.2:
            return "bind", self.a_bind_custom()
        if x < 0.3:
            a = self.a_bind_sasl()
            return "bind", {"dn": a["dn"] or "", "auth": {"t": "Sasl", "mechanism": a["mechanism"], "credentials": a["cred"]},
                            "controls": a["controls"]}
        if x < 0.65:
            return "bind_sasl", self.a_bind_sasl()
        return "bind_simple", self.a_bind_simple()

    def a_extended_request(self):
        return {"name": self.r.choice(EXT_OIDS), "value": self.opt_blob(0.4), "controls": self.controls(),
                "name_enum": self.r.random() < 0.3}

    def a_search_request(self):
        r = self.r
        a = {"base": self.opt_text(), "scope": r.randrange(3), "deref": r.randrange(4), "size_limit": self.int_(),
             "time_limit": self.int_(), "types_only": r.random() < 0.3,
             "filter": None if r.random() < 0.2 else self.filter(),
             "attributes": None if r.random() < 0.3 else [r.choice(ATTRS + ["*", "1.1", "+"]) for _ in range(r.choice([0, 1, 2, 5]))],
             "controls": self.controls(), "enums": r.random() < 0.4}
        return a

    def a_result(self, mid, code=None):
        a = {"id": mid, "code": self.code() if code is None else code, "matched_dn": self.opt_text(),
             "diag": self.opt_text(), "controls": self.controls()}
        return self._omit(a, {"controls": "controls", "matched_dn": "matched_dn", "diag": "diagnostics_message"})

    def _omit(self, a, names):
        """Leave out keyword arguments whose abstract value is None anyway (the API default)."""
        om = [kw for k, kw in names.items() if a.get(k) is None and self.r.random() < 0.5]
        if a.get("code") == 0 and "code" in a and self.r.random() < 0.3:
            om.append("result_code")
        if om:
            a["omit"] = om
        return a

    def a_bind_response(self, mid, code=None):
        a = self.a_result(mid, code)
        a["sasl_creds"] = self.opt_blob(0.5)
        return a

    def a_extended_response(self, mid, name="?"):
        a = self.a_result(mid)
        if name == "?":
            name = self.r.choice([None, None] + EXT_OIDS)
        a["name"] = name
        a["value"] = self.opt_blob(0.5)
        a["name_enum"] = self.r.random() < 0.4
        return a

    def a_entry(self, mid):
        r = self.r
        attrs = [{"name": r.choice(ATTRS), "values": [self.blob() for _ in range(r.choice([0, 1, 1, 3]))]}
                 for _ in range(r.choice([0, 1, 2, 4]))]
        if r.random() < 0.35:
            # an attribute object the application keeps and updates in place from one entry to the next
            k = r.choice(["p0", "p1"])
            attrs.insert(r.randrange(len(attrs) + 1), {"name": {"p0": "member", "p1": "cn"}[k], "pool": k,
                                                       "values": [self.blob() for _ in range(r.choice([0, 1, 2]))]})
        return {"id": mid, "object_name": self.text(), "attributes": attrs, "controls": self.controls()}

    def a_reference(self, mid):
        r = self.r
        return {"id": mid, "uris": [r.choice(["ldap://a.example/dc=x", "ldaps://b/", "ldap://[::1]/o=é"]) for _ in
                                    range(r.choice([1, 1, 2, 3]))], "controls": self.controls()}

    def a_done(self, mid):
        return self.a_result(mid)


__all__ = ["Gen", "build_call", "canon_msg", "expected_message", "norm", "light_of", "NOTICE_OID"]
