"""Independent BER toolkit (X.690), written from the standard.  Imports nothing from sansldap.

* header reader / framer (low + high tag numbers, short + long definite lengths with any
  number of length octets and leading zeros, indefinite length flagged)
* TLV tree parser with DFS node addressing (for the fault injector)
* minimal encoder helpers (for the byzantine peers and re-framing)
"""
from __future__ import annotations

UNIVERSAL, APPLICATION, CONTEXT, PRIVATE = 0, 1, 2, 3


class Incomplete(Exception):
    """More bytes are needed before the header / value can be read."""


class Indefinite(Exception):
    """Indefinite length form (0x80) met - not allowed in LDAP (RFC 4511 5.1)."""


class Malformed(Exception):
    """Structurally invalid for the strict decoder."""


def read_header(buf, off=0):
    """Return (cls, constructed, number, header_len, content_len).

    Raises Incomplete when the identifier or length octets are not all there, Indefinite for
    the 0x80 length octet.  Never looks at content octets.
    """
    n = len(buf)
    if off >= n:
        raise Incomplete()
    b0 = buf[off]
    cls = b0 >> 6
    constructed = bool(b0 & 0x20)
    number = b0 & 0x1F
    p = off + 1
    if number == 0x1F:
        number = 0
        k = 0
        while True:
            if p >= n:
                raise Incomplete()
            o = buf[p]
            p += 1
            k += 1
            if k > 64:
                # a tag number of more than 448 bits: not a header anybody wrote on purpose (and big-integer arithmetic over a
                # megabyte of 0xFF octets would take minutes)
                raise Indefinite()
            number = (number << 7) | (o & 0x7F)
            if not o & 0x80:
                break
    if p >= n:
        raise Incomplete()
    l0 = buf[p]
    p += 1
    if l0 == 0x80:
        raise Indefinite()
    if l0 & 0x80:
        cnt = l0 & 0x7F
        if p + cnt > n:
            raise Incomplete()
        length = int.from_bytes(bytes(buf[p : p + cnt]), "big") if cnt else 0
        p += cnt
    else:
        length = l0
    return cls, constructed, number, p - off, length


def frame_units(buf):
    """Walk `buf` from offset 0 and return (units, rest_off, flag).

    units: list of (start, end) of complete outermost TLVs; rest_off: offset of the first
    byte not belonging to a complete unit; flag: None | "indefinite" (walk stopped there).
    """
    units = []
    off = 0
    n = len(buf)
    flag = None
    while off < n:
        try:
            _c, _k, _num, hl, ln = read_header(buf, off)
        except Incomplete:
            break
        except Indefinite:
            flag = "indefinite"
            break
        if off + hl + ln > n:
            break
        units.append((off, off + hl + ln))
        off += hl + ln
    return units, off, flag


class Node:
    __slots__ = ("off", "hl", "ln", "cls", "constructed", "num", "children", "parent", "depth")

    def __init__(self, off, hl, ln, cls, constructed, num, parent, depth):
        self.off = off
        self.hl = hl
        self.ln = ln
        self.cls = cls
        self.constructed = constructed
        self.num = num
        self.children = []
        self.parent = parent
        self.depth = depth

    @property
    def end(self):
        return self.off + self.hl + self.ln

    def kind(self):
        c = "UACP"[self.cls]
        return "%s%d%s" % (c, self.num, "c" if self.constructed else "p")


def parse_tree(buf, start, end, max_depth=64):
    """Parse buf[start:end] (one complete TLV expected at `start`) into a Node tree.

    Children of a constructed node are parsed only if they tile its content exactly; otherwise
    the node is kept as a leaf.  Iterative; returns (root, nodes_in_dfs_order) or (None, []).
    """
    try:
        cls, cons, num, hl, ln = read_header(buf, start)
    except (Incomplete, Indefinite):
        return None, []
    if start + hl + ln > end:
        return None, []
    root = Node(start, hl, ln, cls, cons, num, None, 0)
    stack = [root]
    while stack:
        node = stack.pop()
        if not node.constructed or node.depth >= max_depth:
            continue
        p = node.off + node.hl
        stop = node.end
        kids = []
        ok = True
        while p < stop:
            try:
                c2, k2, n2, h2, l2 = read_header(buf, p)
            except (Incomplete, Indefinite):
                ok = False
                break
            if p + h2 + l2 > stop:
                ok = False
                break
            kids.append(Node(p, h2, l2, c2, k2, n2, node, node.depth + 1))
            p += h2 + l2
        if ok:
            node.children = kids
            stack.extend(kids)
    # DFS pre-order listing
    order = []
    st = [root]
    while st:
        nd = st.pop()
        order.append(nd)
        st.extend(reversed(nd.children))
    return root, order


# ------------------------------------------------------------------ encoding helpers


def enc_len(n, form=None):
    """Definite length octets.  form: None = minimal; int k = long form with k length octets."""
    if form is None:
        if n < 128:
            return bytes([n])
        k = (n.bit_length() + 7) // 8
        return bytes([0x80 | k]) + n.to_bytes(k, "big")
    k = max(form, (n.bit_length() + 7) // 8, 1)
    return bytes([0x80 | k]) + n.to_bytes(k, "big")


def enc_ident(cls, constructed, number):
    b0 = (cls << 6) | (0x20 if constructed else 0)
    if number < 31:
        return bytes([b0 | number])
    out = [number & 0x7F]
    number >>= 7
    while number:
        out.append(0x80 | (number & 0x7F))
        number >>= 7
    return bytes([b0 | 0x1F]) + bytes(reversed(out))


# Encoding style of the independent encoder: (length form for constructed TLVs, for primitive TLVs).
# None = minimal definite lengths; k = long form with k length octets (Active Directory writes every
# constructed length with 4 octets).  Set only through `style()`.
_STYLE = [None, None]


class style:
    def __init__(self, constructed_form=None, primitive_form=None):
        self.new = [constructed_form, primitive_form]

    def __enter__(self):
        self.old = list(_STYLE)
        _STYLE[:] = self.new
        return self

    def __exit__(self, *a):
        _STYLE[:] = self.old


def tlv(cls, constructed, number, content, form=None):
    if form is None:
        form = _STYLE[0] if constructed else _STYLE[1]
    return enc_ident(cls, constructed, number) + enc_len(len(content), form) + bytes(content)


def enc_int_content(v):
    """Minimal two's complement content octets."""
    n = 1
    while True:
        try:
            return v.to_bytes(n, "big", signed=True)
        except OverflowError:
            n += 1


def dec_int_content(b):
    if len(b) == 0:
        raise Malformed("INTEGER with no content octets")
    return int.from_bytes(bytes(b), "big", signed=True)


def integer(v, cls=UNIVERSAL, number=2, form=None):
    return tlv(cls, False, number, enc_int_content(v), form)


def enumerated(v, form=None):
    return tlv(UNIVERSAL, False, 10, enc_int_content(v), form)


def octets(b, cls=UNIVERSAL, number=4, form=None):
    return tlv(cls, False, number, b, form)


def boolean(v, cls=UNIVERSAL, number=1, form=None):
    return tlv(cls, False, number, b"\xff" if v else b"\x00", form)


def sequence(parts, cls=UNIVERSAL, number=16, form=None):
    return tlv(cls, True, number, b"".join(parts), form)
