"""./check selftest determinism | mutants [ids...] | neutral | seeded

determinism: every claimed property, many seeds, each run twice in-process, once more in a
             fresh interpreter under another PYTHONHASHSEED, and with 1 / 4 / 16 workers;
             all run digests must agree.
mutants    : scratch copies of /repo/src with one seeded defect each (selftest/mutants.json and
             reverts of the fix: commits); the named property's quick check must exit 1.
neutral    : scratch copies with behaviour-preserving edits; every claimed check must exit 0.
seeded     : the sub-agent supplied changes kept under /verif/seeded/<id>/.
Scratch copies live under $TMPDIR (outside /repo and /verif) and are removed straight away.
"""
from __future__ import annotations

import concurrent.futures as cf
import json
import multiprocessing as mp
import os
import random
import shutil
import subprocess
import sys
import tempfile
import time

from . import runner
from .props import CLAIMED, load

VERIF = runner.VERIF
REPO_SRC = os.environ.get("SIMLDAP_REPO_SRC", "/repo/src")


# ------------------------------------------------------------------ determinism


def _digests(args):
    prop_id, tier, base, start, count, twice = args
    prop = load(prop_id, tier)
    out = []
    for idx in range(start, start + count):
        seed = runner.derive_seed(base, prop_id, tier, idx)
        prop.begin_run(idx, seed)
        r = runner.execute(prop, None, rng=random.Random(seed), max_steps=prop.max_steps(tier))
        d = r["digest"] + ("V" if r["violation"] else "") + ("D" if r["diverged"] else "")
        if twice:
            prop.begin_run(idx, seed)
            r2 = runner.execute(prop, None, rng=random.Random(seed), max_steps=prop.max_steps(tier))
            d2 = r2["digest"] + ("V" if r2["violation"] else "") + ("D" if r2["diverged"] else "")
            if d != d2:
                out.append((idx, "INPROCESS-MISMATCH %s %s" % (d, d2)))
                continue
            # replaying the recorded op list must give the same digest too
            r3 = runner.execute(prop, r["ops"], collect=False)
            d3 = r3["digest"] + ("V" if r3["violation"] else "") + ("D" if r3["diverged"] else "")
            if d != d3:
                out.append((idx, "REPLAY-MISMATCH %s %s" % (d, d3)))
                continue
        out.append((idx, d))
    return out


def _collect(prop_id, n, workers, twice, base):
    per = max(1, n // max(workers * 4, 1))
    tasks = []
    i = 0
    while i < n:
        c = min(per, n - i)
        tasks.append((prop_id, "quick", base, i, c, twice))
        i += c
    res = {}
    with cf.ProcessPoolExecutor(max_workers=workers, mp_context=mp.get_context("fork")) as ex:
        for part in ex.map(_digests, tasks):
            for idx, d in part:
                res[idx] = d
    return res


def determinism(base, n=None):
    n = n or int(os.environ.get("SELFTEST_SEEDS", "2000"))
    if os.environ.get("SIMLDAP_DIGEST_CHILD"):
        # child mode: print digests as json (fresh interpreter, other hash seed)
        prop_id = os.environ["SIMLDAP_DIGEST_CHILD"]
        res = _collect(prop_id, n, 4, False, base)
        json.dump({str(k): v for k, v in res.items()}, sys.stdout)
        return 0
    bad = 0
    for prop_id in CLAIMED:
        t0 = time.time()
        a = _collect(prop_id, n, 16, True, base)
        b = _collect(prop_id, n, 1 if n <= 300 else 4, False, base)
        c = _collect(prop_id, n, 1, False, base) if n <= 300 else _collect(prop_id, n // 10, 1, False, base)
        env = dict(os.environ, PYTHONHASHSEED="12345", SIMLDAP_DIGEST_CHILD=prop_id, SELFTEST_SEEDS=str(n))
        p = subprocess.run([sys.executable, os.path.join(VERIF, "main.py"), "selftest", "determinism"],
                           env=env, capture_output=True, text=True, timeout=3600)
        try:
            d = {int(k): v for k, v in json.loads(p.stdout).items()}
        except Exception:  # noqa: BLE001
            print("determinism %s: fresh interpreter failed: %s" % (prop_id, p.stderr[-500:]))
            bad += 1
            continue
        mism = [i for i in a if "MISMATCH" in a[i]]
        mism += [i for i in b if a.get(i) != b[i]]
        mism += [i for i in c if a.get(i) != c[i]]
        mism += [i for i in d if a.get(i) != d[i]]
        print("determinism %s: %d seeds x (2 in-process + op-list replay, 16/4/1 workers, fresh interpreter PYTHONHASHSEED=12345): "
              "%d mismatches  [%.1fs]" % (prop_id, n, len(set(mism)), time.time() - t0))
        for i in sorted(set(mism))[:5]:
            print("   run %d: %s | %s | %s | %s" % (i, a.get(i), b.get(i), c.get(i), d.get(i)))
        bad += len(set(mism))
    return 1 if bad else 0


# ------------------------------------------------------------------ scratch trees


def scratch_tree():
    d = tempfile.mkdtemp(prefix="simldap_scratch_")
    shutil.copytree(REPO_SRC, os.path.join(d, "src"), ignore=shutil.ignore_patterns("__pycache__", "*.egg-info"))
    return d


def apply_edit(root, m):
    if "revert" in m:
        revs = m["revert"] if isinstance(m["revert"], list) else [m["revert"]]
        for rev in revs:
            diff = subprocess.run(["git", "-C", "/repo", "show", rev, "--", "src"], capture_output=True, text=True, check=True).stdout
            p = subprocess.run(["patch", "-R", "-p1", "-s", "-d", root], input=diff, text=True, capture_output=True)
            if p.returncode != 0:
                raise RuntimeError("cannot revert %s: %s %s" % (rev, p.stdout, p.stderr))
        return
    if "patch" in m:
        diff = open(os.path.join(VERIF, m["patch"])).read()
        p = subprocess.run(["patch", "-p1", "-s", "-d", root], input=diff, text=True, capture_output=True)
        if p.returncode != 0:
            raise RuntimeError("cannot apply %s: %s %s" % (m["patch"], p.stdout, p.stderr))
        return
    for e in m["edits"]:
        path = os.path.join(root, e["file"])
        s = open(path).read()
        if s.count(e["old"]) != e.get("count", 1):
            raise RuntimeError("mutant %s: pattern occurs %d times in %s" % (m["id"], s.count(e["old"]), e["file"]))
        open(path, "w").write(s.replace(e["old"], e["new"]))


def run_check_on(root, prop_id, runs=None, tier="quick"):
    env = dict(os.environ, SIMLDAP_REPO_SRC=os.path.join(root, "src"), SIMLDAP_NO_EVIDENCE="1", PYTHONHASHSEED="0")
    cmd = [sys.executable, os.path.join(VERIF, "main.py"), prop_id, "--tier", tier]
    if runs:
        cmd += ["--runs", str(runs)]
    p = subprocess.run(cmd, env=env, capture_output=True, text=True, timeout=3000)
    return p.returncode, p.stdout + p.stderr


def pytest_on(root):
    """Does the pinned suite still pass on the scratch tree?  (tests import `sansldap` -> put scratch first)"""
    env = dict(os.environ, PYTHONPATH=os.path.join(root, "src"))
    p = subprocess.run([sys.executable, "-m", "pytest", "-q", "-x", "-p", "no:cacheprovider", "/repo/tests"], env=env,
                       capture_output=True, text=True, timeout=900, cwd=root)
    return p.returncode == 0, p.stdout[-300:]


def _one_mutant(m, with_tests):
    root = scratch_tree()
    try:
        try:
            apply_edit(root, m)
        except Exception as e:  # noqa: BLE001 - one entry that no longer applies must not end the whole self-test
            return m["id"], None, {pr: (3, [], "CANNOT APPLY: %s" % e) for pr in m["props"]}
        tests_ok = None
        if with_tests:
            tests_ok, _ = pytest_on(root)
        res = {}
        for prop_id in m["props"]:
            rc, out = run_check_on(root, prop_id, runs=m.get("runs"))
            classes = sorted(set(l.split("class=")[1].split()[0] for l in out.splitlines() if l.strip().startswith("class=")))
            res[prop_id] = (rc, classes, out)
        return m["id"], tests_ok, res
    finally:
        shutil.rmtree(root, ignore_errors=True)


def load_mutants(kind):
    doc = json.load(open(os.path.join(VERIF, "selftest", "mutants.json")))
    return doc[kind]


def load_seeded():
    out = []
    sd = os.path.join(VERIF, "seeded")
    if os.path.isdir(sd):
        for name in sorted(os.listdir(sd)):
            meta = os.path.join(sd, name, "meta.json")
            if os.path.exists(meta):
                md = json.load(open(meta))
                if md.get("expected_miss"):
                    print("seeded  %-8s not caught by design: %s" % (name, md["expected_miss"][:160]))
                    continue
                out.append({"id": name, "props": md.get("caught_by") or [md["property"]], "patch": "seeded/%s/patch.diff" % name,
                            "note": md.get("needs", "")})
    return out


def mutants(ids, kind="mutants", with_tests=False, par=4):
    ms = load_seeded() if kind == "seeded" else load_mutants(kind)
    if ids:
        ms = [m for m in ms if m["id"] in ids]
    fails = 0
    t0 = time.time()
    rows = []
    with cf.ThreadPoolExecutor(max_workers=par) as ex:
        for mid, tests_ok, res in ex.map(lambda m: _one_mutant(m, with_tests), ms):
            for prop_id, (rc, classes, out) in res.items():
                want = 0 if kind == "neutral" else 1
                ok = rc == want
                rows.append({"id": mid, "check": prop_id, "exit": rc, "expected_exit": want, "classes": classes[:6],
                             "pinned_suite_passes": tests_ok})
                if not ok:
                    fails += 1
                print("%-7s %-8s %-4s exit=%d %s %s%s" % (kind, mid, prop_id, rc, "ok " if ok else "FAIL",
                                                          ",".join(classes)[:140], "" if tests_ok is None else "  [pinned suite %s]" % (
                                                              "passes" if tests_ok else "FAILS")))
                if not ok and rc in (2, 3):
                    print(out[-800:])
                if kind == "neutral" and not ok:
                    print(out[-1200:])
    print("%s: %d entries, %d failures, %.0fs" % (kind, len(ms), fails, time.time() - t0))
    try:
        os.makedirs(os.path.join(VERIF, "out"), exist_ok=True)
        json.dump({"kind": kind, "entries": len(ms), "failures": fails, "rows": rows},
                  open(os.path.join(VERIF, "out", "selftest_%s.json" % kind), "w"), indent=0)
    except OSError:
        pass
    return 1 if fails else 0


def main(what, seed, ns):
    extra = [a for a in (os.environ.get("SELFTEST_IDS", "").split(",")) if a]
    if what == "determinism":
        return determinism(seed)
    if what in ("mutants", "neutral", "seeded"):
        return mutants(extra, what, with_tests=bool(os.environ.get("SELFTEST_PYTEST")))
    print("unknown selftest %r" % what)
    return 2
