"""Command line: check <ID> [--tier quick|thorough] | replay <path> | selftest <what>"""
from __future__ import annotations

import argparse
import os
import sys


def _bootstrap():
    # one hash seed for every interpreter we start; /repo/src first so edits are picked up
    if os.environ.get("PYTHONHASHSEED") != "0" and not os.environ.get("SIMLDAP_DIGEST_CHILD"):
        os.environ["PYTHONHASHSEED"] = "0"
        os.execv(sys.executable, [sys.executable] + sys.argv)
    repo_src = os.environ.get("SIMLDAP_REPO_SRC", "/repo/src")
    sys.path.insert(0, repo_src)
    import sansldap

    real = os.path.realpath(sansldap.__file__)
    if not real.startswith(os.path.realpath(repo_src) + os.sep):
        print("HARNESS-ERROR: sansldap imported from %s, not from %s" % (real, repo_src))
        sys.exit(2)
    sys.setrecursionlimit(1000)


def main(argv=None):
    _bootstrap()
    ap = argparse.ArgumentParser(prog="check")
    ap.add_argument("what")
    ap.add_argument("arg", nargs="?")
    ap.add_argument("--tier", default=os.environ.get("VERIF_TIER", "quick"), choices=["quick", "thorough"])
    ap.add_argument("--workers", type=int, default=None)
    ap.add_argument("--runs", type=int, default=None)
    ap.add_argument("--replay", default=None)
    ns = ap.parse_args(argv)
    from . import runner

    try:
        seed = int(os.environ.get("VERIF_SEED", "0") or 0)
    except ValueError:
        seed = 0
    if ns.what == "replay" or ns.replay:
        return runner.replay_file(ns.replay or ns.arg)
    if ns.what == "selftest":
        from . import selftest

        return selftest.main(ns.arg, seed, ns)
    try:
        return runner.run_check(ns.what.upper(), ns.tier, seed, workers=ns.workers, runs=ns.runs)
    except SystemExit:
        raise
    except BaseException:  # noqa: BLE001 - never let a harness failure look like a verdict
        import traceback

        traceback.print_exc()
        print("HARNESS-ERROR: the check itself failed (not a verdict about the property)")
        return 2


if __name__ == "__main__":
    sys.exit(main())
