"""The simulated world: real sansldap sessions, byte pipes, total op executor, model stepping.

Everything a property check observes goes through this module, and this module touches the
sessions only through their public API (`state`, `receive`, `data_to_send`, the request /
response / register methods) and through `copy.deepcopy` clones.
"""
from __future__ import annotations

import copy
import hashlib
import json
import logging

import sansldap

from . import ber, rfc4511, safe, values
from .model import Model


# A session may legitimately hold a memoryview (e.g. over its own residue): teach deepcopy to clone it as a view over a private copy
copy._deepcopy_dispatch[memoryview] = lambda x, memo: memoryview(bytearray(x) if not x.readonly else bytes(x))  # noqa: SLF001


class Violation(Exception):
    def __init__(self, prop, key, detail=""):
        super().__init__("%s/%s: %s" % (prop, key, detail))
        self.prop = prop
        self.key = key
        self.class_key = "%s/%s" % (prop, key)
        self.detail = detail


class Diverged(Exception):
    """Implementation and reference model disagree on something that the property under
    check does not speak about (another property's alarm).  The run stops; it is counted."""


class HarnessError(Exception):
    pass


class _FormatSink(logging.Handler):
    """Formats every record (so that %r / %s arguments are evaluated) and drops it."""

    def emit(self, record):
        try:
            record.getMessage()
        except Exception:  # noqa: BLE001 - a logging call that cannot be formatted must not hurt the application
            pass


_SINK = _FormatSink()


def _set_library_logging(on):
    """Configuration knob: an application may run with DEBUG logging enabled for the library's loggers."""
    lg = logging.getLogger("sansldap")
    if _SINK not in lg.handlers:
        lg.addHandler(_SINK)
        lg.propagate = False
    lg.setLevel(logging.DEBUG if on else logging.WARNING)


def _light(x):
    try:
        return values.light_of(x)
    except Exception:  # noqa: BLE001
        return ["?", None]


def _is_termination(lt):
    return lt.get("kind") == "UnbindRequest" or (lt.get("kind") == "ExtendedResponse" and lt.get("name") == rfc4511.NOTICE_OID)


def state_name(sess):
    s = sess.state
    return getattr(s, "name", str(s))


def exc_info(e):
    return {
        "type": type(e).__name__,
        "ldap": isinstance(e, sansldap.LDAPError),
        "proto": isinstance(e, sansldap.ProtocolError),
        "msg": str(e)[:200],
    }


class Sess:
    def __init__(self, name, role, peer=None, predict=True):
        self.name = name
        self.role = role
        self.real = sansldap.LDAPClient() if role == "c" else sansldap.LDAPServer()
        self.model = Model(role)
        self.peer = peer  # name of the session our drained bytes travel to (or None)
        self.predict = predict
        self.inbox = bytearray()  # bytes in the pipe towards this session
        self.mbuf = bytearray()  # model-side reassembly buffer
        self.rx_all = bytearray()  # every byte ever delivered (while it was willing to listen)
        self.drained = bytearray()  # every byte ever drained
        self.returned = []  # canon of every message receive() returned
        self.returned_objs = []  # the live objects (C02 self-containedness)
        self.returned_lists = []  # (the list object receive() returned, a copy of its content at that time)
        self.calls_ok = []  # (method, args, ret) of accepted message calls, in order
        self.errored = None  # exc_info of the ProtocolError that closed it via receive
        self.err_response = None
        self.torn = False  # connection torn down: nothing more is delivered
        self.regs = []


class World:
    def __init__(self, init):
        self.init = init
        self.s = {}
        self.order = []
        for spec in init.get("sessions", []):
            se = Sess(spec["name"], spec["role"], spec.get("peer"), spec.get("predict", True))
            self.s[se.name] = se
            self.order.append(se.name)
            for typ in spec.get("register", []):
                m = values.ct.REGISTER_METHOD[typ]
                getattr(se.real, m)(values.ct.BY_NAME[typ])
                se.regs.append(typ)
        _set_library_logging(bool(init.get("debug_logging")))
        self.pool = {}  # per session: library objects the simulated application keeps across calls
        self.observe_pending = init.get("observe_pending", False)
        self.events = 0
        self.h = hashlib.sha256()
        self.stats = {}

    # ------------------------------------------------------------------ helpers

    def bump(self, k, n=1):
        self.stats[k] = self.stats.get(k, 0) + n

    def note(self, rec):
        self.h.update(safe.dumps(rec, sort_keys=True, default=str).encode())
        self.h.update(b"\n")

    def digest(self):
        return self.h.hexdigest()

    def pending(self, who):
        """Bytes waiting in the outgoing buffer, read from a deep copy (does not drain)."""
        return bytes(copy.deepcopy(self.s[who].real).data_to_send())

    def clone(self, who):
        return copy.deepcopy(self.s[who].real)

    def fast_preroll(self, cname, sname, n):
        """A joined client/server pair that has already completed `n` minimal operations (each answered at once) before the
        seeded history starts: ids then need two octets and small-integer caches no longer apply.  Done on the real
        sessions without per-event bookkeeping; both reference models are advanced alike.  Raises HarnessError if the pair
        does not get through it (that is then some other check's finding, reached there through the ordinary ops)."""
        c, s = self.s[cname], self.s[sname]
        for i in range(n):
            try:
                mid = c.real.extended_request("1.1")
                s.real.receive(c.real.data_to_send())
                s.real.extended_response(mid)
                c.real.receive(s.real.data_to_send())
            except Exception as e:  # noqa: BLE001
                raise Diverged("pair did not survive %d plain operations: %s: %s" % (i + 1, type(e).__name__, e))
            c.model.call_commit("extended_request", {"name": "1.1"}, True, ret=mid)
            c.model._retire(mid)
            if s.model.st == "B0":
                s.model.st = "OP"
            s.model.retired.append(mid)
            for m in (c.model, s.model):
                if len(m.retired) > 64:
                    del m.retired[:-32]
        self.note({"op": "fast_preroll", "n": n})

    def misuse_receive(self, who, kind):
        """The application passes something that is not bytes-like to receive() (a bug on its side).  Whatever the call
        does - normally it raises TypeError - is not judged here; what matters is what the session does afterwards."""
        arg = {"str": "not bytes", "none": None, "float": 1.5, "object": object()}.get(kind, "x")
        try:
            self.s[who].real.receive(arg)
            out = "returned"
        except Exception as e:  # noqa: BLE001
            out = type(e).__name__
        self.note({"op": "misuse_receive", "who": who, "kind": kind, "out": out})
        return out

    # ------------------------------------------------------------------ ops

    def apply(self, op):
        self.events += 1
        k = op["op"]
        fn = getattr(self, "_op_" + k, None)
        if fn is None:
            ev = {"op": k, "noop": True}
        else:
            ev = fn(op)
        return ev

    def _op_call(self, op):
        who = op["who"]
        se = self.s.get(who)
        m = op["m"]
        a = op.get("a", {})
        ev = {"op": "call", "who": who, "m": m, "a": a}
        if se is None or not hasattr(se.real, m):
            ev["noop"] = True
            return ev
        is_reg = m in values.REGISTER
        ev["st_before"] = state_name(se.real)
        ev["mst_before"] = se.model.st
        if self.observe_pending:
            ev["pend_before"] = self.pending(who)
        ev["expect"] = None if is_reg else (se.model.call_expect(m, a) if self._args_ok(se, m, a) else None)
        build_failed = False
        try:
            args, kwargs = values.build_call(m, a, self.pool.setdefault(who, {}))
        except (KeyError, TypeError) as e:
            ev["noop"] = True
            ev["build_error"] = repr(e)
            return ev
        except Exception as e:  # noqa: BLE001
            # building the arguments runs library code too (e.g. LDAPResultCode(<int>)): if that raises, the application's
            # call never reaches the session - an argument error, observed like a call that failed before sending anything
            build_failed = True
            ev["accepted"] = False
            ev["ret"] = None
            ev["exc"] = exc_info(e)
            ev["exc"]["ldap"] = False
        if not build_failed:
            if m in ("bind", "bind_simple", "bind_sasl") and se.role == "c" and getattr(se.real, "version", 3) != a.get("_version", 3):
                se.real.version = a.get("_version", 3)  # public attribute: the version the next BindRequest names
            try:
                ret = getattr(se.real, m)(*args, **kwargs)
                ev["accepted"] = True
                ev["ret"] = ret
                ev["exc"] = None
            except Exception as e:  # noqa: BLE001 - every exception class is an observation
                ev["accepted"] = False
                ev["ret"] = None
                ev["exc"] = exc_info(e)
        ev["st_after"] = state_name(se.real)
        if self.observe_pending:
            ev["pend_after"] = self.pending(who)
        if is_reg:
            if ev["accepted"]:
                se.regs.append(a.get("type"))
            ev["sync"] = True
            ev["state_sync"] = True
        else:
            exp = ev["expect"]
            ev["sync"] = exp in (None, "either") or (exp == "accept") == ev["accepted"]
            if exp in ("accept", "either") and not ev["accepted"] and not ev["exc"]["ldap"] and (
                    build_failed or ev["exc"]["type"] in ("UnicodeEncodeError",)):
                # argument error (a str that cannot be encoded): the call fails before anything is sent; not a refusal by
                # the state machine and not a verdict about it - the model treats it as a call without effect
                ev["arg_error"] = True
                ev["expect"] = exp = "refuse"
                ev["sync"] = True
            if ev["sync"] and exp is not None:
                okret = True
                if ev["accepted"] and se.role == "c" and m != "unbind" and not isinstance(ev["ret"], int):
                    okret = False
                if okret:
                    se.model.call_commit(m, a, ev["accepted"], ev["ret"])
                ev["state_sync"] = se.model.state_ok(ev["st_after"])
            else:
                ev["state_sync"] = True
            if ev["accepted"]:
                se.calls_ok.append((m, a, ev["ret"]))
        ev["mst_after"] = se.model.st
        self.note({"op": "call", "who": who, "m": m, "acc": ev["accepted"], "ret": ev["ret"] if isinstance(ev["ret"], int) else None,
                   "exc": ev["exc"] and ev["exc"]["type"], "st": ev["st_after"]})
        return ev

    @staticmethod
    def _args_ok(se, m, a):
        if se.role == "s" and m != "unbind":
            return isinstance(a.get("id"), int)
        return True

    def _op_drain(self, op):
        who = op["who"]
        se = self.s.get(who)
        ev = {"op": "drain", "who": who, "n": op.get("n")}
        if se is None:
            ev["noop"] = True
            return ev
        n = op.get("n")
        ev["st_before"] = state_name(se.real)
        if self.observe_pending:
            ev["pend_before"] = self.pending(who)
        try:
            data = se.real.data_to_send(n) if n is not None else se.real.data_to_send()
            ev["exc"] = None
        except Exception as e:  # noqa: BLE001
            data = b""
            ev["exc"] = exc_info(e)
        ev["data"] = bytes(data) if isinstance(data, (bytes, bytearray, memoryview)) else data
        ev["st_after"] = state_name(se.real)
        if isinstance(ev["data"], bytes):
            se.drained.extend(ev["data"])
            if se.peer is not None and se.peer in self.s:
                self.s[se.peer].inbox.extend(ev["data"])
        self.note({"op": "drain", "who": who, "n": n, "len": len(ev["data"]) if isinstance(ev["data"], bytes) else -1})
        return ev

    def _op_inject(self, op):
        to = op["to"]
        se = self.s.get(to)
        ev = {"op": "inject", "to": to}
        if se is None:
            ev["noop"] = True
            return ev
        if "hex" in op:
            data = bytes.fromhex(op["hex"])
        else:
            try:
                sty = op.get("style") or self.init.get("style") or [None, None]
                with ber.style(sty[0], sty[1]):
                    data = rfc4511.enc_msg(op["msg"], outer_form=op.get("form"))
            except (KeyError, ValueError, TypeError, IndexError) as e:
                ev["noop"] = True
                ev["build_error"] = repr(e)
                return ev
        se.inbox.extend(data)
        ev["data"] = data
        self.note({"op": "inject", "to": to, "len": len(data)})
        return ev

    def _op_deliver(self, op):
        to = op["to"]
        se = self.s.get(to)
        ev = {"op": "deliver", "to": to, "who": to}
        if se is None:
            ev["noop"] = True
            return ev
        n = op.get("n")
        if n is None:
            n = len(se.inbox)
        n = max(0, min(int(n), len(se.inbox)))
        data = bytes(se.inbox[:n])
        del se.inbox[:n]
        ev["data"] = data
        bufkind = op.get("buf", "bytes")
        released = getattr(se, "held_views", [])
        se.held_views = []
        if bufkind == "bytearray":
            arg = bytearray(data)
        elif bufkind == "bytearray_viewed":
            # recv_into style: the caller reads into its own bytearray through a memoryview that stays alive until after the
            # following read (a bytearray with a live export cannot be resized by anybody)
            arg = bytearray(data)
            se.held_views = [memoryview(arg)]
        elif bufkind == "memoryview_reused":
            # recv_into(view) style with a fixed-size buffer: the SAME memoryview object is handed over again whenever a read
            # fills it exactly (here: whenever a delivery has the same length as an earlier one)
            pool = getattr(se, "rx_views", None)
            if pool is None:
                pool = se.rx_views = {}
            ent = pool.get(len(data))
            if ent is None or len(pool) > 8:
                backing = bytearray(data)
                ent = pool[len(data)] = (backing, memoryview(backing))
            backing, arg = ent
            backing[:] = data
            bufkind = "memoryview"
            ev["view_reused"] = True
        elif bufkind == "memoryview":
            backing = bytearray(data)
            arg = memoryview(backing)
        else:
            arg = data
        ev["st_before"] = state_name(se.real)
        ev["mst_before"] = se.model.st
        was_closed = ev["st_before"] == "CLOSED"
        if self.observe_pending:
            ev["pend_before"] = self.pending(to)
        # --- model-side framing and expectation
        lights = None
        expect = None
        if se.predict:
            if se.model.st == "CL":
                expect = ("error", 0)
                lights = []
            else:
                se.mbuf.extend(data)
                units, rest, flag = ber.frame_units(se.mbuf)
                doomed = None
                if self.init.get("invalid_units"):
                    # what follows the last complete unit may already be recognisably invalid before it is complete: an
                    # indefinite length, or a complete header that is not a SEQUENCE - a receiver may (and this one does) fail now
                    if flag == "indefinite":
                        doomed, flag = "indefinite length", None
                    elif rest < len(se.mbuf):
                        try:
                            c0, k0, n0, _h0, _l0 = ber.read_header(se.mbuf, rest)
                            if (c0, k0, n0) != (ber.UNIVERSAL, True, 16):
                                doomed = "outer tag is not SEQUENCE"
                        except (ber.Incomplete, ber.Indefinite):
                            pass
                try:
                    if flag:
                        raise ber.Malformed(flag)
                    lights = []
                    for a, b in units:
                        try:
                            lights.append(rfc4511.light(se.mbuf, a, b))
                        except ber.Malformed as e:
                            if not self.init.get("invalid_units"):
                                raise
                            # a byzantine peer may send a complete unit that is not an LDAPMessage at all: invalid payload
                            lights.append({"id": None, "kind": None, "tag": None, "code": None, "name": None, "invalid": str(e)})
                except ber.Malformed as e:
                    if not self.init.get("real_stream"):
                        raise HarnessError("model cannot read a stream that should be well-formed: %s" % e)
                    # the bytes come from a real session's data_to_send(): an unreadable stream is an observation
                    # (the sender corrupted its own output), not a harness failure; prediction stops here
                    ev["unreadable"] = str(e)
                    se.predict = False
                    lights = None
                if lights is not None:
                    del se.mbuf[:rest]
                    expect = se.model.recv_expect(lights)
                    if doomed and expect[0] == "ok":
                        # failing right away and failing when the unit is complete are both fine
                        expect = ("either", expect[1])
                        ev["doomed"] = doomed
        ev["expect"] = expect
        ev["lights"] = lights
        # --- the real call
        try:
            msgs = se.real.receive(arg)
            ev["ok"] = True
            ev["msgs"] = msgs
            ev["exc"] = None
            ev["exc_response"] = None
        except Exception as e:  # noqa: BLE001
            ev["ok"] = False
            ev["msgs"] = None
            ev["exc"] = exc_info(e)
            ev["exc_obj_request"] = getattr(e, "request", None)
            resp = getattr(e, "response", None)
            ev["exc_response"] = bytes(resp) if isinstance(resp, (bytes, bytearray, memoryview)) else resp
        for v in released:
            v.release()
        if op.get("scribble") and bufkind in ("bytearray", "bytearray_viewed", "memoryview"):
            tgt = backing if bufkind == "memoryview" else arg
            tgt[:] = b"\xee" * len(tgt)
            ev["scribbled"] = len(tgt) > 0
        ev["st_after"] = state_name(se.real)
        if self.observe_pending:
            ev["pend_after"] = self.pending(to)
        if not was_closed:
            se.rx_all.extend(data)
        well_typed = ev["ok"] and isinstance(msgs, list) and all(isinstance(x, sansldap.LDAPMessage) for x in msgs)
        ev["well_typed"] = well_typed
        if well_typed:
            se.returned_lists.append((msgs, list(msgs)))
            for x in msgs:
                try:
                    se.returned.append(values.canon_msg(x))
                except Exception as e:  # noqa: BLE001 - a returned message whose public fields cannot be read
                    se.returned.append({"t": "?unreadable", "id": None, "error": "%s: %s" % (type(e).__name__, e)})
                    ev["unreadable_message"] = "%s: %s" % (type(e).__name__, e)
                se.returned_objs.append(x)
        if not ev["ok"] and not was_closed:
            se.errored = ev["exc"]
            se.err_response = ev["exc_response"]
        # --- sync with the model
        if expect is not None:
            verdict, cnt = expect
            if verdict == "either":
                # either all of it is returned, or the call raises - and then the session must be closed (the exception class is
                # judged by C05 / C09, the state by C08)
                sync = (well_typed and len(msgs) == len(lights)) or (not ev["ok"])
                ev["foreign"] = (not ev["ok"]) and not ev["exc"]["proto"]
            elif verdict == "ok":
                sync = well_typed and len(msgs) == cnt
            else:
                # the documented outcome is a ProtocolError; any exception counts as "refused" here - its class is judged by the
                # properties that speak about it (C05, C09) - so that the state after it is still compared with the model
                sync = not ev["ok"]
                ev["foreign"] = (not ev["ok"]) and not ev["exc"]["proto"]

            ev["sync"] = sync
            if sync:
                if se.model.st != "CL":
                    se.model.recv_commit(lights, raised=not ev["ok"])
                ev["state_sync"] = se.model.state_ok(ev["st_after"])
            elif self.init.get("follow") and verdict == "error" and ev["ok"] and se.model.st != "CL":
                se.model.closed_by_error()
                ev["followed_error"] = True
                ev["state_sync"] = True
            elif self.init.get("follow") and verdict == "ok" and se.model.st != "CL" and ev["st_after"] != "CLOSED":
                # "follow" mode (C10, C08): the implementation mishandled a delivery that the documented protocol accepts
                # (wrong number of messages, a foreign exception) but is still open.  The model keeps tracking what the PEER
                # actually sent - that is what "currently outstanding" means - and the run goes on.
                se.model.recv_commit(lights, raised=False)
                ev["followed"] = True
                ev["state_sync"] = True
            else:
                ev["state_sync"] = True
        else:
            ev["sync"] = True
            ev["state_sync"] = True
        ev["mst_after"] = se.model.st
        self.note({"op": "deliver", "to": to, "len": len(data), "ok": ev["ok"],
                   "ret": [_light(x) for x in msgs] if well_typed else None,
                   "exc": ev["exc"] and ev["exc"]["type"], "st": ev["st_after"]})
        return ev

    def _op_forward_response(self, op):
        frm = op["from"]
        se = self.s.get(frm)
        ev = {"op": "forward_response", "from": frm}
        if se is None or se.peer is None or se.peer not in self.s or not isinstance(se.err_response, bytes):
            ev["noop"] = True
            return ev
        self.s[se.peer].inbox.extend(se.err_response)
        se.torn = True
        ev["data"] = se.err_response
        se.err_response = None
        self.note({"op": "forward_response", "from": frm, "len": len(ev["data"])})
        return ev

    # ------------------------------------------------------------------ clone-based probes

    def probe_in_progress(self, who, mid, kind=None):
        """Kind-aware wrapper: for a server the probe response is of the kind matching the request (a stricter server
        may refuse kind-mismatched responses); returns None when the state does not allow such a probe."""
        se = self.s[who]
        if se.role == "s" and kind == "mixed":
            # an id that was received for requests of different kinds: in progress if a response of either kind is accepted
            if state_name(se.real) != "OPENED":
                return None
            got = False
            for meth, args in (("search_result_entry", (mid, "", [])), ("extended_response", (mid,))):
                cp = self.clone(who)
                try:
                    getattr(cp, meth)(*args)
                    got = True
                except Exception:  # noqa: BLE001
                    pass
            return got
        if se.role == "s" and kind in ("SearchRequest", "ExtendedRequest"):
            cp = self.clone(who)
            if state_name(cp) != "OPENED":
                return None
            try:
                if kind == "SearchRequest":
                    cp.search_result_entry(mid, "", [])
                else:
                    cp.extended_response(mid)
                return True
            except Exception:  # noqa: BLE001
                return False
        return self._probe_in_progress_any(who, mid)

    def _probe_in_progress_any(self, who, mid):
        """Does the session treat `mid` as an operation in progress?  Asked of a deep copy:
        client - does it accept a BindResponse(saslBindInProgress) carrying that id;
        server - does it accept bind_response(id, saslBindInProgress)."""
        se = self.s[who]
        cp = self.clone(who)
        if se.role == "c":
            data = rfc4511.enc_msg({"t": "BindResponse", "id": mid, "controls": [],
                                    "result": {"code": 14, "matched_dn": "", "diag": ""}, "sasl_creds": None})
            try:
                r = cp.receive(data)
                return isinstance(r, list) and len(r) == 1
            except Exception:  # noqa: BLE001
                return False
        try:
            cp.bind_response(mid, result_code=sansldap.LDAPResultCode.SASL_BIND_IN_PROGRESS)
            return True
        except Exception:  # noqa: BLE001
            return False

    def probe_server_entry_keeps(self, mid, who="s"):
        """Server only: after search_result_entry(mid) on a copy the id is still outstanding."""
        cp = self.clone(who)
        try:
            cp.search_result_entry(mid, "", [])
            cp.search_result_entry(mid, "", [])
            return True
        except Exception:  # noqa: BLE001
            return False

    def probe_client_idle(self, who):
        """Client: no operation in progress <=> a new bind is accepted (asked of a deep copy)."""
        cp = self.clone(who)
        try:
            cp.bind_simple()
            return True
        except Exception:  # noqa: BLE001
            return False

    def probe_server_idle(self, who):
        """Server: nothing outstanding <=> a BindRequest is accepted (asked of a deep copy)."""
        cp = self.clone(who)
        data = rfc4511.enc_msg({"t": "BindRequest", "id": 2000000000, "controls": [], "version": 3, "name": "",
                                "auth": {"t": "Simple", "password": ""}})
        try:
            r = cp.receive(data)
            return isinstance(r, list) and len(r) == 1
        except Exception:  # noqa: BLE001
            return False

    def probe_is_search(self, who, mid):
        """Client only: an entry for `mid` is accepted and leaves it in progress."""
        cp = self.clone(who)
        entry = rfc4511.enc_msg({"t": "SearchResultEntry", "id": mid, "controls": [], "object_name": "",
                                 "attributes": []})
        probe = rfc4511.enc_msg({"t": "BindResponse", "id": mid, "controls": [],
                                 "result": {"code": 14, "matched_dn": "", "diag": ""}, "sasl_creds": None})
        try:
            cp.receive(entry)
            r = cp.receive(probe)
            return isinstance(r, list) and len(r) == 1
        except Exception:  # noqa: BLE001
            return False
