"""Custom control / filter / credential types, modelled on the documented examples in the
sansldap docstrings (and tests/test_session.py), but raising ValueError (never struct.error)
on malformed values so that C05's "only ProtocolError" oracle judges the library, not these
helper types."""
from __future__ import annotations

import dataclasses
import typing as t

import sansldap
from sansldap.asn1 import ASN1Reader, ASN1Tag, ASN1Writer, TagClass


@dataclasses.dataclass(frozen=True)
class CustomAuth(sansldap.AuthenticationCredential):
    auth_id: int = dataclasses.field(init=False, repr=False, default=1024)

    username: str
    password: str

    def pack(self, writer: ASN1Writer, options: sansldap.AuthenticationOptions) -> None:
        writer.write_octet_string(
            f"{self.username}:{self.password}".encode(options.string_encoding),
            tag=ASN1Tag(TagClass.CONTEXT_SPECIFIC, self.auth_id, False),
        )

    @classmethod
    def unpack(cls, reader: ASN1Reader, options: sansldap.AuthenticationOptions) -> "CustomAuth":
        value = reader.read_octet_string(
            tag=ASN1Tag(TagClass.CONTEXT_SPECIFIC, cls.auth_id, False),
            hint="CustomAuth.value",
        ).decode(options.string_encoding)
        username, _, password = value.partition(":")
        return CustomAuth(username=username, password=password)


@dataclasses.dataclass(frozen=True)
class CustomControl(sansldap.LDAPControl):
    control_type: str = dataclasses.field(init=False, repr=False, default="1.2.3.4")
    value: t.Optional[bytes] = dataclasses.field(init=False, repr=False, default=None)

    size: int

    def get_value(self, options: sansldap.ControlOptions) -> t.Optional[bytes]:
        return self.size.to_bytes(4, byteorder="big")

    @classmethod
    def unpack(cls, control_type: str, critical: bool, value: t.Optional[bytes], options: sansldap.ControlOptions) -> "CustomControl":
        if value is None or len(value) != 4:
            raise ValueError("CustomControl value must be 4 octets")
        return CustomControl(critical=critical, size=int.from_bytes(value, "big"))


@dataclasses.dataclass(frozen=True)
class CustomFilter(sansldap.LDAPFilter):
    filter_id: int = dataclasses.field(init=False, repr=False, default=1024)

    value: str

    def pack(self, writer: ASN1Writer, options: sansldap.FilterOptions) -> None:
        writer.write_octet_string(
            self.value.encode(options.string_encoding),
            tag=ASN1Tag(TagClass.CONTEXT_SPECIFIC, self.filter_id, False),
        )

    @classmethod
    def unpack(cls, reader: ASN1Reader, options: sansldap.FilterOptions) -> "CustomFilter":
        value = reader.read_octet_string(
            ASN1Tag(TagClass.CONTEXT_SPECIFIC, cls.filter_id, False),
        ).decode(options.string_encoding)
        return CustomFilter(value=value)


BY_NAME = {"CustomAuth": CustomAuth, "CustomControl": CustomControl, "CustomFilter": CustomFilter}
REGISTER_METHOD = {
    "CustomAuth": "register_auth_credential",
    "CustomControl": "register_control",
    "CustomFilter": "register_filter",
}
