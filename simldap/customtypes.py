"""Custom control / filter / credential types, modelled on the documented examples in the
sansldap docstrings (and tests/test_session.py), but raising ValueError (never struct.error)
on malformed values so that C05's "only ProtocolError" oracle judges the library, not these
helper types."""
from __future__ import annotations

import dataclasses
import typing as t

import sansldap
from sansldap.asn1 import ASN1Reader, ASN1Tag, ASN1Writer, TagClass


@dataclasses.dataclass(frozen=True)
class CustomAuth(sansldap.AuthenticationCredential):
    auth_id: int = dataclasses.field(init=False, repr=False, default=1024)

    username: str
    password: str

    def pack(self, writer: ASN1Writer, options: sansldap.AuthenticationOptions) -> None:
        writer.write_octet_string(
            f"{self.username}:{self.password}".encode(options.string_encoding),
            tag=ASN1Tag(TagClass.CONTEXT_SPECIFIC, self.auth_id, False),
        )

    @classmethod
    def unpack(cls, reader: ASN1Reader, options: sansldap.AuthenticationOptions) -> "CustomAuth":
        value = reader.read_octet_string(
            tag=ASN1Tag(TagClass.CONTEXT_SPECIFIC, cls.auth_id, False),
            hint="CustomAuth.value",
        ).decode(options.string_encoding)
        username, _, password = value.partition(":")
        return CustomAuth(username=username, password=password)


@dataclasses.dataclass(frozen=True)
class CustomControl(sansldap.LDAPControl):
    control_type: str = dataclasses.field(init=False, repr=False, default="1.2.3.4")
    value: t.Optional[bytes] = dataclasses.field(init=False, repr=False, default=None)

    size: int

    def get_value(self, options: sansldap.ControlOptions) -> t.Optional[bytes]:
        return self.size.to_bytes(4, byteorder="big")

    @classmethod
    def unpack(cls, control_type: str, critical: bool, value: t.Optional[bytes], options: sansldap.ControlOptions) -> "CustomControl":
        if value is None or len(value) != 4:
            raise ValueError("CustomControl value must be 4 octets")
        return CustomControl(critical=critical, size=int.from_bytes(value, "big"))


@dataclasses.dataclass(frozen=True)
class CustomFilter(sansldap.LDAPFilter):
    filter_id: int = dataclasses.field(init=False, repr=False, default=1024)

    value: str

    def pack(self, writer: ASN1Writer, options: sansldap.FilterOptions) -> None:
        writer.write_octet_string(
            self.value.encode(options.string_encoding),
            tag=ASN1Tag(TagClass.CONTEXT_SPECIFIC, self.filter_id, False),
        )

    @classmethod
    def unpack(cls, reader: ASN1Reader, options: sansldap.FilterOptions) -> "CustomFilter":
        value = reader.read_octet_string(
            ASN1Tag(TagClass.CONTEXT_SPECIFIC, cls.filter_id, False),
        ).decode(options.string_encoding)
        return CustomFilter(value=value)


# Alternative types that claim the SAME choice id / OID as the ones above (two applications in
# one process may each define their own class for a private id; registrations are per session).


@dataclasses.dataclass(frozen=True)
class AltAuth(sansldap.AuthenticationCredential):
    auth_id: int = dataclasses.field(init=False, repr=False, default=1024)

    token: bytes

    def pack(self, writer: ASN1Writer, options: sansldap.AuthenticationOptions) -> None:
        writer.write_octet_string(self.token, tag=ASN1Tag(TagClass.CONTEXT_SPECIFIC, self.auth_id, False))

    @classmethod
    def unpack(cls, reader: ASN1Reader, options: sansldap.AuthenticationOptions) -> "AltAuth":
        return AltAuth(token=reader.read_octet_string(tag=ASN1Tag(TagClass.CONTEXT_SPECIFIC, cls.auth_id, False), hint="AltAuth.token"))


@dataclasses.dataclass(frozen=True)
class AltControl(sansldap.LDAPControl):
    control_type: str = dataclasses.field(init=False, repr=False, default="1.2.3.4")
    value: t.Optional[bytes] = dataclasses.field(init=False, repr=False, default=None)

    level: int

    def get_value(self, options: sansldap.ControlOptions) -> t.Optional[bytes]:
        return self.level.to_bytes(8, byteorder="little")

    @classmethod
    def unpack(cls, control_type: str, critical: bool, value: t.Optional[bytes], options: sansldap.ControlOptions) -> "AltControl":
        return AltControl(critical=critical, level=int.from_bytes(value or b"", "little"))


@dataclasses.dataclass(frozen=True)
class AltFilter(sansldap.LDAPFilter):
    filter_id: int = dataclasses.field(init=False, repr=False, default=1024)

    raw: bytes

    def pack(self, writer: ASN1Writer, options: sansldap.FilterOptions) -> None:
        writer.write_octet_string(self.raw, tag=ASN1Tag(TagClass.CONTEXT_SPECIFIC, self.filter_id, False))

    @classmethod
    def unpack(cls, reader: ASN1Reader, options: sansldap.FilterOptions) -> "AltFilter":
        return AltFilter(raw=reader.read_octet_string(ASN1Tag(TagClass.CONTEXT_SPECIFIC, cls.filter_id, False))[::-1])


EDGE_TAGS = (30, 31, 32, 127, 128)  # around the low/high tag number form (31) and the 1/2-octet high form (127/128)
WIDE_TAGS = (1280, 2048)  # congruent to the documented example id 1024 modulo 256 / modulo 1024


def _mk_edge_filter(n):
    @dataclasses.dataclass(frozen=True)
    class EdgeFilter(sansldap.LDAPFilter):
        filter_id: int = dataclasses.field(init=False, repr=False, default=n)

        value: str

        def pack(self, writer: ASN1Writer, options: sansldap.FilterOptions) -> None:
            writer.write_octet_string(self.value.encode(options.string_encoding), tag=ASN1Tag(TagClass.CONTEXT_SPECIFIC, self.filter_id, False))

        @classmethod
        def unpack(cls, reader: ASN1Reader, options: sansldap.FilterOptions):
            return cls(value=reader.read_octet_string(ASN1Tag(TagClass.CONTEXT_SPECIFIC, cls.filter_id, False)).decode(options.string_encoding))

    EdgeFilter.__name__ = EdgeFilter.__qualname__ = "EdgeFilter%d" % n
    return EdgeFilter


def _mk_edge_auth(n):
    @dataclasses.dataclass(frozen=True)
    class EdgeAuth(sansldap.AuthenticationCredential):
        auth_id: int = dataclasses.field(init=False, repr=False, default=n)

        token: bytes

        def pack(self, writer: ASN1Writer, options: sansldap.AuthenticationOptions) -> None:
            writer.write_octet_string(self.token, tag=ASN1Tag(TagClass.CONTEXT_SPECIFIC, self.auth_id, False))

        @classmethod
        def unpack(cls, reader: ASN1Reader, options: sansldap.AuthenticationOptions):
            return cls(token=reader.read_octet_string(tag=ASN1Tag(TagClass.CONTEXT_SPECIFIC, cls.auth_id, False), hint="EdgeAuth.token"))

    EdgeAuth.__name__ = EdgeAuth.__qualname__ = "EdgeAuth%d" % n
    return EdgeAuth


EDGE_FILTERS = {n: _mk_edge_filter(n) for n in EDGE_TAGS + WIDE_TAGS}
EDGE_AUTHS = {n: _mk_edge_auth(n) for n in EDGE_TAGS}


@dataclasses.dataclass(frozen=True)
class SubControl(sansldap.ShowDeletedControl):
    """An application control that derives from a public built-in control class but has its own OID."""

    control_type: str = dataclasses.field(init=False, default="1.2.3.4.9")

    @classmethod
    def unpack(cls, control_type: str, critical: bool, value: t.Optional[bytes], options: sansldap.ControlOptions) -> "SubControl":
        return SubControl(critical=critical)


BY_NAME = {"SubControl": SubControl, "CustomAuth": CustomAuth, "CustomControl": CustomControl, "CustomFilter": CustomFilter,
           "AltAuth": AltAuth, "AltControl": AltControl, "AltFilter": AltFilter}
REGISTER_METHOD = {
    "SubControl": "register_control",
    "CustomAuth": "register_auth_credential",
    "CustomControl": "register_control",
    "CustomFilter": "register_filter",
    "AltAuth": "register_auth_credential",
    "AltControl": "register_control",
    "AltFilter": "register_filter",
}
SLOT = {"SubControl": "subcontrol", "CustomAuth": "auth", "AltAuth": "auth", "CustomControl": "control", "AltControl": "control",
        "CustomFilter": "filter", "AltFilter": "filter"}

@dataclasses.dataclass(frozen=True)
class SubEquality(sansldap.FilterEquality):
    """An application filter that derives from a built-in attribute-value-assertion filter, reuses its pack/unpack and
    only claims another choice id."""

    filter_id: int = dataclasses.field(init=False, repr=False, default=1025)


@dataclasses.dataclass(frozen=True)
class SubSimple(sansldap.SimpleCredential):
    """An application credential that derives from the built-in simple credential (same pack/unpack, written in terms of
    `auth_id`) and only claims another choice id - the way AD's sicily binds are usually added."""

    auth_id: int = dataclasses.field(init=False, repr=False, default=10)


BY_NAME["SubSimple"] = SubSimple
REGISTER_METHOD["SubSimple"] = "register_auth_credential"
SLOT["SubSimple"] = "auth10"
BY_NAME["SubEquality"] = SubEquality
REGISTER_METHOD["SubEquality"] = "register_filter"
SLOT["SubEquality"] = "filter1025"
for _n in WIDE_TAGS:
    BY_NAME["EdgeFilter%d" % _n] = EDGE_FILTERS[_n]
    REGISTER_METHOD["EdgeFilter%d" % _n] = "register_filter"
    SLOT["EdgeFilter%d" % _n] = "filter%d" % _n
for _n in EDGE_TAGS:
    BY_NAME["EdgeFilter%d" % _n] = EDGE_FILTERS[_n]
    BY_NAME["EdgeAuth%d" % _n] = EDGE_AUTHS[_n]
    REGISTER_METHOD["EdgeFilter%d" % _n] = "register_filter"
    REGISTER_METHOD["EdgeAuth%d" % _n] = "register_auth_credential"
    SLOT["EdgeFilter%d" % _n] = "filter%d" % _n
    SLOT["EdgeAuth%d" % _n] = "auth%d" % _n
