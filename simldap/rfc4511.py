"""Independent RFC 4511 encoder / decoder over *abstract values* (plain JSON-able dicts).

Written from RFC 4511 section 4 / Appendix B and X.690.  Imports nothing from sansldap.

Abstract message: {"t": <kind>, "id": int, "controls": [ctrl...], ...fields...}
  kinds: BindRequest BindResponse UnbindRequest SearchRequest SearchResultEntry
         SearchResultDone SearchResultReference ExtendedRequest ExtendedResponse
octet strings are lower-case hex strings; text is str; absent optionals are None.
"""
from __future__ import annotations

from . import ber
from .ber import APPLICATION, CONTEXT, UNIVERSAL, Malformed

NOTICE_OID = "1.3.6.1.4.1.1466.20036"

OP_TAG = {
    "BindRequest": 0,
    "BindResponse": 1,
    "UnbindRequest": 2,
    "SearchRequest": 3,
    "SearchResultEntry": 4,
    "SearchResultDone": 5,
    "SearchResultReference": 19,
    "ExtendedRequest": 23,
    "ExtendedResponse": 24,
}
TAG_OP = {v: k for k, v in OP_TAG.items()}
REQUEST_KINDS = {"BindRequest", "UnbindRequest", "SearchRequest", "ExtendedRequest"}
RESPONSE_KINDS = {"BindResponse", "SearchResultEntry", "SearchResultDone", "SearchResultReference", "ExtendedResponse"}

FILTER_TAG = {
    "And": 0,
    "Or": 1,
    "Not": 2,
    "Equality": 3,
    "Substrings": 4,
    "GreaterOrEqual": 5,
    "LessOrEqual": 6,
    "Present": 7,
    "ApproxMatch": 8,
    "ExtensibleMatch": 9,
    "CustomFilter": 1024,
}

CONTROL_OID = {
    "Paged": "1.2.840.113556.1.4.319",
    "ShowDeleted": "1.2.840.113556.1.4.417",
    "ShowDeactivatedLink": "1.2.840.113556.1.4.2065",
    "CustomControl": "1.2.3.4",
}


def _s(x):
    if isinstance(x, dict):  # {"hex": ...}: raw octets where text is expected (invalid UTF-8 from a byzantine peer)
        return bytes.fromhex(x["hex"])
    return x.encode("utf-8")


def _h(x):
    return bytes.fromhex(x)


# ------------------------------------------------------------------ encoder


def enc_filter(f):
    t = f["t"]
    if t == "EdgeFilter":  # the harness' custom filters with choice tags around the tag-number encoding boundaries
        return ber.octets(_s(f["value"]), CONTEXT, int(f["n"]))
    if t == "SubEquality":  # the harness' filter deriving from the built-in equality filter, choice id 1025
        return ber.tlv(CONTEXT, True, 1025, ber.octets(_s(f["attribute"])) + ber.octets(_h(f["value"])))
    tag = FILTER_TAG[t]
    if t in ("And", "Or"):
        return ber.tlv(CONTEXT, True, tag, b"".join(enc_filter(x) for x in f["filters"]))
    if t == "Not":
        return ber.tlv(CONTEXT, True, tag, enc_filter(f["filter"]))
    if t in ("Equality", "GreaterOrEqual", "LessOrEqual", "ApproxMatch"):
        return ber.tlv(CONTEXT, True, tag, ber.octets(_s(f["attribute"])) + ber.octets(_h(f["value"])))
    if t == "Substrings":
        subs = []
        if f["initial"] is not None:
            subs.append(ber.octets(_h(f["initial"]), CONTEXT, 0))
        for a in f["any"]:
            subs.append(ber.octets(_h(a), CONTEXT, 1))
        if f["final"] is not None:
            subs.append(ber.octets(_h(f["final"]), CONTEXT, 2))
        return ber.tlv(CONTEXT, True, tag, ber.octets(_s(f["attribute"])) + ber.sequence(subs))
    if t == "Present":
        return ber.octets(_s(f["attribute"]), CONTEXT, tag)
    if t == "ExtensibleMatch":
        parts = []
        if f["rule"] is not None:
            parts.append(ber.octets(_s(f["rule"]), CONTEXT, 1))
        if f["attribute"] is not None:
            parts.append(ber.octets(_s(f["attribute"]), CONTEXT, 2))
        parts.append(ber.octets(_h(f["value"]), CONTEXT, 3))
        if f["dn_attributes"]:
            parts.append(ber.boolean(True, CONTEXT, 4))
        return ber.tlv(CONTEXT, True, tag, b"".join(parts))
    if t == "CustomFilter":
        return ber.octets(_s(f["value"]), CONTEXT, tag)
    raise ValueError("unknown filter kind %r" % t)


EDGE_TAGS = (30, 31, 32, 127, 128, 1280, 2048)


def control_wire(c):
    """(oid, critical, value-bytes-or-None) of an abstract control."""
    t = c["t"]
    if t == "Control":
        return c["type"], c["critical"], (None if c["value"] is None else _h(c["value"]))
    if t == "Paged":
        val = ber.sequence([ber.integer(c["size"]), ber.octets(_h(c["cookie"]))])
        return CONTROL_OID[t], c["critical"], val
    if t in ("ShowDeleted", "ShowDeactivatedLink"):
        return CONTROL_OID[t], c["critical"], None
    if t == "CustomControl":
        return CONTROL_OID[t], c["critical"], c["size"].to_bytes(4, "big")
    raise ValueError("unknown control kind %r" % t)


def enc_control(c):
    oid, crit, val = control_wire(c)
    parts = [ber.octets(_s(oid))]
    if crit:
        parts.append(ber.boolean(True))
    if val is not None:
        parts.append(ber.octets(val))
    return ber.sequence(parts)


def enc_result(r):
    parts = [ber.enumerated(r["code"]), ber.octets(_s(r["matched_dn"])), ber.octets(_s(r["diag"]))]
    if r.get("referrals"):
        parts.append(ber.tlv(CONTEXT, True, 3, b"".join(ber.octets(_s(u)) for u in r["referrals"])))
    return b"".join(parts)


def enc_auth(a):
    t = a["t"]
    if t == "Simple":
        return ber.octets(_s(a["password"]), CONTEXT, 0)
    if t == "Sasl":
        parts = [ber.octets(_s(a["mechanism"]))]
        if a["credentials"] is not None:
            parts.append(ber.octets(_h(a["credentials"])))
        return ber.tlv(CONTEXT, True, 3, b"".join(parts))
    if t == "CustomAuth":
        return ber.octets(_s("%s:%s" % (a["username"], a["password"])), CONTEXT, 1024)
    if t == "EdgeAuth":
        return ber.octets(_h(a["token"]), CONTEXT, int(a["n"]))
    if t == "SubSimple":  # the harness' credential deriving from the built-in simple credential, choice id 10
        return ber.octets(_s(a["password"]), CONTEXT, 10)
    raise ValueError("unknown auth kind %r" % t)


def enc_op(m):
    t = m["t"]
    if t == "RawOp":  # a protocolOp this library does not implement (modify, add, delete, compare, abandon, intermediate ...)
        return ber.tlv(APPLICATION, m.get("constructed", True), m["tag"], bytes.fromhex(m.get("body", "")))
    tag = OP_TAG[t]
    if t == "BindRequest":
        body = ber.integer(m["version"]) + ber.octets(_s(m["name"])) + enc_auth(m["auth"])
    elif t == "BindResponse":
        body = enc_result(m["result"])
        if m["sasl_creds"] is not None:
            body += ber.octets(_h(m["sasl_creds"]), CONTEXT, 7)
    elif t == "UnbindRequest":
        return ber.tlv(APPLICATION, False, tag, b"")
    elif t == "SearchRequest":
        body = (
            ber.octets(_s(m["base"]))
            + ber.enumerated(m["scope"])
            + ber.enumerated(m["deref"])
            + ber.integer(m["size_limit"])
            + ber.integer(m["time_limit"])
            + ber.boolean(m["types_only"])
            + enc_filter(m["filter"])
            + ber.sequence([ber.octets(_s(a)) for a in m["attributes"]])
        )
    elif t == "SearchResultEntry":
        attrs = []
        for a in m["attributes"]:
            vals = ber.tlv(UNIVERSAL, True, 17, b"".join(ber.octets(_h(v)) for v in a["values"]))
            attrs.append(ber.sequence([ber.octets(_s(a["name"])), vals]))
        body = ber.octets(_s(m["object_name"])) + ber.sequence(attrs)
    elif t == "SearchResultDone":
        body = enc_result(m["result"])
    elif t == "SearchResultReference":
        body = b"".join(ber.octets(_s(u)) for u in m["uris"])
    elif t == "ExtendedRequest":
        body = ber.octets(_s(m["name"]), CONTEXT, 0)
        if m["value"] is not None:
            body += ber.octets(_h(m["value"]), CONTEXT, 1)
    elif t == "ExtendedResponse":
        body = enc_result(m["result"])
        if m["name"] is not None and not m.get("ms_adts"):
            body += ber.octets(_s(m["name"]), CONTEXT, 10)
        if m["value"] is not None:
            body += ber.octets(_h(m["value"]), CONTEXT, 11)
    else:
        raise ValueError("unknown message kind %r" % t)
    return ber.tlv(APPLICATION, True, tag, body)


def enc_msg(m, outer_form=None):
    parts = [ber.integer(m["id"]), enc_op(m)]
    if m.get("controls"):
        parts.append(ber.tlv(CONTEXT, True, 0, b"".join(enc_control(c) for c in m["controls"])))
    if m.get("envelope_name") is not None:
        # a [10] element in the envelope of ANY message kind (only meaningful for ExtendedResponse; to be ignored elsewhere)
        parts.append(ber.octets(_s(m["envelope_name"]), CONTEXT, 10))
    if m.get("ms_adts") and m.get("t") == "ExtendedResponse" and m.get("name") is not None:
        # MS-ADTS NoticeOfDisconnectionLDAPMessage: responseName [10] at the envelope level (Active Directory)
        parts.append(ber.octets(_s(m["name"]), CONTEXT, 10))
    return ber.sequence(parts, form=outer_form)


def deep_not_search(mid, depth, form=None):
    """SearchRequest whose filter is NOT nested `depth` levels around a present filter."""
    f = ber.octets(b"objectClass", CONTEXT, 7)
    for _ in range(depth):
        f = ber.tlv(CONTEXT, True, 2, f, form)
    body = (
        ber.octets(b"")
        + ber.enumerated(2)
        + ber.enumerated(0)
        + ber.integer(0)
        + ber.integer(0)
        + ber.boolean(False)
        + f
        + ber.sequence([])
    )
    return ber.sequence([ber.integer(mid), ber.tlv(APPLICATION, True, 3, body, form)], form=form)


def deep_and_search(mid, depth, form=None):
    f = ber.octets(b"cn", CONTEXT, 7)
    for i in range(depth):
        f = ber.tlv(CONTEXT, True, i % 2, f, form)
    body = (
        ber.octets(b"")
        + ber.enumerated(2)
        + ber.enumerated(0)
        + ber.integer(0)
        + ber.integer(0)
        + ber.boolean(False)
        + f
        + ber.sequence([])
    )
    return ber.sequence([ber.integer(mid), ber.tlv(APPLICATION, True, 3, body, form)], form=form)


def deep_controls_response(mid, depth):
    """SearchResultDone carrying one control whose *value* hides deep nesting (inert) plus a
    deeply nested unknown trailing element inside the envelope (skipped by a tolerant decoder)."""
    junk = b""
    for _ in range(depth):
        junk = ber.tlv(CONTEXT, True, 5, junk)
    op = ber.tlv(APPLICATION, True, 5, enc_result({"code": 0, "matched_dn": "", "diag": ""}))
    return ber.sequence([ber.integer(mid), op, junk])


# ------------------------------------------------------------------ light decoder (model side)


def light(buf, start=0, end=None):
    """Shallow view of one complete PDU: {"id", "kind", "tag", "code", "name"}.

    Only what the reference session model needs.  Raises Malformed if even that cannot be
    read (never happens for bytes produced by a correct encoder).
    """
    if end is None:
        end = len(buf)
    root, order = ber.parse_tree(buf, start, end, max_depth=2)
    if root is None or root.end != end:
        raise Malformed("not one complete TLV")
    if (root.cls, root.constructed, root.num) != (UNIVERSAL, True, 16) or len(root.children) < 2:
        raise Malformed("envelope is not SEQUENCE{id, op,...}")
    idn, op = root.children[0], root.children[1]
    if (idn.cls, idn.constructed, idn.num) != (UNIVERSAL, False, 2):
        raise Malformed("messageID is not a primitive INTEGER")
    mid = ber.dec_int_content(buf[idn.off + idn.hl : idn.end])
    if op.cls != APPLICATION:
        raise Malformed("protocolOp is not APPLICATION class")
    kind = TAG_OP.get(op.num)
    out = {"id": mid, "kind": kind, "tag": op.num, "code": None, "name": None}
    # the paged-results control is a type the library knows and decodes (RFC 2696): a missing or malformed value makes the whole
    # message invalid
    for k in root.children[2:]:
        if (k.cls, k.num, k.constructed) == (CONTEXT, 0, True):
            _r2, _o2 = ber.parse_tree(buf, k.off, k.end, max_depth=3)
            for ctl in (_r2.children if _r2 is not None else []):
                kids = ctl.children
                if kids and (kids[0].cls, kids[0].num) == (UNIVERSAL, 4) and bytes(buf[kids[0].off + kids[0].hl : kids[0].end]) == CONTROL_OID["Paged"].encode():
                    vals = [c for c in kids[1:] if (c.cls, c.num, c.constructed) == (UNIVERSAL, 4, False)]
                    ok = False
                    if vals:
                        v = bytes(buf[vals[-1].off + vals[-1].hl : vals[-1].end])
                        try:
                            r = _R(v, 0, len(v))
                            sq = r.sub(UNIVERSAL, 16, "realSearchControlValue")
                            sq.int_("size")
                            sq.octs("cookie")
                            ok = True
                        except Malformed:
                            ok = False
                    if not ok:
                        # whether a receiver rejects this (the library does) or tolerates it is not stated anywhere
                        out["dubious"] = "paged-results control without a well-formed value"
    if kind in ("BindResponse", "SearchResultDone", "ExtendedResponse"):
        kids = op.children
        if kids and (kids[0].cls, kids[0].num) == (UNIVERSAL, 10):
            out["code"] = ber.dec_int_content(buf[kids[0].off + kids[0].hl : kids[0].end])
        if kind == "ExtendedResponse":
            for k in kids[3:]:
                if (k.cls, k.num) == (CONTEXT, 10):
                    out["name"] = bytes(buf[k.off + k.hl : k.end]).decode("utf-8", "replace")
            if out["name"] is None:
                # MS-ADTS NoticeOfDisconnectionLDAPMessage: responseName [10] at envelope level
                for k in root.children[2:]:
                    if (k.cls, k.num) == (CONTEXT, 10):
                        out["name"] = bytes(buf[k.off + k.hl : k.end]).decode("utf-8", "replace")
    return out


# ------------------------------------------------------------------ strict decoder


class _R:
    """Strict TLV cursor over buf[p:end]."""

    def __init__(self, buf, p, end):
        self.buf, self.p, self.end = buf, p, end

    def more(self):
        return self.p < self.end

    def peek(self):
        try:
            cls, cons, num, hl, ln = ber.read_header(self.buf, self.p)
        except (ber.Incomplete, ber.Indefinite) as e:
            raise Malformed("bad header: %s" % type(e).__name__)
        if self.p + hl + ln > self.end:
            raise Malformed("element overruns its container")
        return cls, cons, num, hl, ln

    def take(self, cls, cons, num, what):
        c, k, n, hl, ln = self.peek()
        if (c, k, n) != (cls, cons, num):
            raise Malformed("%s: expected %s got %s" % (what, (cls, cons, num), (c, k, n)))
        start = self.p + hl
        self.p = start + ln
        return start, start + ln

    def sub(self, cls, num, what):
        s, e = self.take(cls, True, num, what)
        return _R(self.buf, s, e)

    def octs(self, what, cls=UNIVERSAL, num=4):
        s, e = self.take(cls, False, num, what)
        return bytes(self.buf[s:e])

    def text(self, what, cls=UNIVERSAL, num=4):
        try:
            return self.octs(what, cls, num).decode("utf-8")
        except UnicodeDecodeError:
            raise Malformed("%s: not UTF-8" % what)

    def int_(self, what, num=2):
        s, e = self.take(UNIVERSAL, False, num, what)
        if e - s < 1:
            raise Malformed("%s: empty INTEGER" % what)
        return int.from_bytes(bytes(self.buf[s:e]), "big", signed=True)

    def bool_(self, what, cls=UNIVERSAL, num=1):
        s, e = self.take(cls, False, num, what)
        if e - s != 1:
            raise Malformed("%s: BOOLEAN content must be one octet" % what)
        return self.buf[s] != 0


def _dec_result(r):
    res = {"code": r.int_("resultCode", 10), "matched_dn": r.text("matchedDN"), "diag": r.text("diagnosticMessage")}
    res["referrals"] = None
    if r.more():
        c, k, n, _hl, _ln = r.peek()
        if (c, n) == (CONTEXT, 3):
            rr = r.sub(CONTEXT, 3, "referral")
            refs = []
            while rr.more():
                refs.append(rr.text("referral.uri"))
            res["referrals"] = refs
    return res


def _dec_controls(r):
    out = []
    cr = r.sub(CONTEXT, 0, "controls")
    while cr.more():
        c = cr.sub(UNIVERSAL, 16, "Control")
        typ = c.text("controlType")
        crit = False
        val = None
        if c.more() and c.peek()[:3] == (UNIVERSAL, False, 1):
            crit = c.bool_("criticality")
        if c.more():
            val = c.octs("controlValue").hex()
        if c.more():
            raise Malformed("trailing data in Control")
        out.append({"t": "Control", "type": typ, "critical": crit, "value": val})
    return out


def _dec_auth(r):
    c, k, n, _hl, _ln = r.peek()
    if c != CONTEXT:
        raise Malformed("authentication choice is not context-specific")
    if n == 0 and not k:
        return {"t": "Simple", "password": r.text("simple", CONTEXT, 0)}
    if n == 3 and k:
        sr = r.sub(CONTEXT, 3, "sasl")
        out = {"t": "Sasl", "mechanism": sr.text("mechanism"), "credentials": None}
        if sr.more():
            out["credentials"] = sr.octs("credentials").hex()
        if sr.more():
            raise Malformed("trailing data in SaslCredentials")
        return out
    if n in EDGE_TAGS and not k:
        return {"t": "EdgeAuth", "n": n, "token": r.octs("edge auth", CONTEXT, n).hex()}
    if n == 1024 and not k:  # the harness' own custom credential (documented example)
        u, _, pw = r.text("custom auth", CONTEXT, 1024).partition(":")
        return {"t": "CustomAuth", "username": u, "password": pw}
    s0, e0 = r.take(c, k, n, "auth")
    return {"t": "Other", "tag": n, "raw": bytes(r.buf[s0:e0]).hex()}


_AVA = {3: "Equality", 5: "GreaterOrEqual", 6: "LessOrEqual", 8: "ApproxMatch"}


def _dec_filter(r, depth):
    if depth > 200:
        raise Malformed("filter nested too deeply for the reference decoder")
    c, k, n, _hl, _ln = r.peek()
    if c != CONTEXT:
        raise Malformed("filter choice is not context-specific")
    if n in (0, 1) and k:
        fr = r.sub(CONTEXT, n, "and/or")
        fs = []
        while fr.more():
            fs.append(_dec_filter(fr, depth + 1))
        return {"t": "And" if n == 0 else "Or", "filters": fs}
    if n == 2 and k:
        fr = r.sub(CONTEXT, 2, "not")
        f = _dec_filter(fr, depth + 1)
        if fr.more():
            raise Malformed("trailing data in not filter")
        return {"t": "Not", "filter": f}
    if n in _AVA and k:
        fr = r.sub(CONTEXT, n, "ava")
        out = {"t": _AVA[n], "attribute": fr.text("attributeDesc"), "value": fr.octs("assertionValue").hex()}
        if fr.more():
            raise Malformed("trailing data in AttributeValueAssertion")
        return out
    if n == 4 and k:
        fr = r.sub(CONTEXT, 4, "substrings")
        out = {"t": "Substrings", "attribute": fr.text("type"), "initial": None, "any": [], "final": None}
        sr = fr.sub(UNIVERSAL, 16, "substrings")
        while sr.more():
            c2, k2, n2, _h, _l = sr.peek()
            if c2 != CONTEXT or k2 or n2 not in (0, 1, 2):
                raise Malformed("bad substring choice")
            v = sr.octs("substring", CONTEXT, n2).hex()
            if n2 == 0:
                out["initial"] = v
            elif n2 == 1:
                out["any"].append(v)
            else:
                out["final"] = v
        if fr.more():
            raise Malformed("trailing data in SubstringFilter")
        return out
    if n == 7 and not k:
        return {"t": "Present", "attribute": r.text("present", CONTEXT, 7)}
    if n == 9 and k:
        fr = r.sub(CONTEXT, 9, "extensibleMatch")
        out = {"t": "ExtensibleMatch", "rule": None, "attribute": None, "value": None, "dn_attributes": False}
        if fr.more() and fr.peek()[:3] == (CONTEXT, False, 1):
            out["rule"] = fr.text("matchingRule", CONTEXT, 1)
        if fr.more() and fr.peek()[:3] == (CONTEXT, False, 2):
            out["attribute"] = fr.text("type", CONTEXT, 2)
        out["value"] = fr.octs("matchValue", CONTEXT, 3).hex()
        if fr.more():
            out["dn_attributes"] = fr.bool_("dnAttributes", CONTEXT, 4)
        if fr.more():
            raise Malformed("trailing data in MatchingRuleAssertion")
        return out
    if n in EDGE_TAGS and not k:
        return {"t": "EdgeFilter", "n": n, "value": r.text("edge filter", CONTEXT, n)}
    if n == 1024 and not k:  # the harness' own custom filter (documented example)
        return {"t": "CustomFilter", "value": r.text("custom filter", CONTEXT, 1024)}
    s0, e0 = r.take(c, k, n, "filter")
    return {"t": "Other", "tag": n, "raw": bytes(r.buf[s0:e0]).hex()}


def wire_norm(m):
    """Normal form for comparing a strictly decoded PDU with an expected abstract message: controls as
    (oid, critical, value) triples, absent == empty referral."""
    m = dict(m)
    cs = []
    for c in m.get("controls") or []:
        oid, crit, val = control_wire(c)
        if oid == CONTROL_OID["Paged"] and val is not None:
            # the paged-results value is itself BER (RFC 2696): compare what it says, not which length forms it uses
            try:
                r = _R(bytes(val), 0, len(val))
                sq = r.sub(UNIVERSAL, 16, "realSearchControlValue")
                size = sq.int_("size")
                cookie = sq.octs("cookie").hex()
                if not sq.more() and not r.more():
                    cs.append([oid, bool(crit), {"size": size, "cookie": cookie}])
                    continue
            except Malformed:
                pass
        cs.append([oid, bool(crit), None if val is None else bytes(val).hex()])
    m["controls"] = cs
    if "result" in m:
        r = dict(m["result"])
        if not r.get("referrals"):
            r["referrals"] = None
        m["result"] = r
    return m


def strict_decode(buf, allow_constructed_unbind=True):
    """Strictly decode ONE PDU that must span all of `buf`.

    Fully decodes UnbindRequest, BindResponse, SearchResultDone, ExtendedResponse (the kinds
    the checks need as *values*); for the other kinds it validates the envelope and returns
    id / kind / controls with the protocolOp content as raw hex.
    `allow_constructed_unbind`: sansldap emits UnbindRequest as 62 00 (constructed) where the
    RFC calls for 42 00; exactness of the P/C bit is property C03's business (see DESIGN 5.2).
    """
    buf = bytes(buf)
    top = _R(buf, 0, len(buf))
    env = top.sub(UNIVERSAL, 16, "LDAPMessage")
    if top.more():
        raise Malformed("trailing bytes after the PDU")
    mid = env.int_("messageID")
    c, k, n, hl, ln = env.peek()
    if c != APPLICATION:
        raise Malformed("protocolOp not APPLICATION class")
    kind = TAG_OP.get(n)
    if kind is None:
        raise Malformed("unknown protocolOp %d" % n)
    out = {"t": kind, "id": mid}
    if kind == "UnbindRequest":
        if k and not allow_constructed_unbind:
            raise Malformed("UnbindRequest must be primitive NULL")
        if ln != 0:
            raise Malformed("UnbindRequest must have empty content")
        env.p += hl
    else:
        op = env.sub(APPLICATION, n, kind)
        if kind in ("BindResponse", "SearchResultDone", "ExtendedResponse"):
            out["result"] = _dec_result(op)
            if kind == "BindResponse":
                out["sasl_creds"] = None
                if op.more():
                    out["sasl_creds"] = op.octs("serverSaslCreds", CONTEXT, 7).hex()
            elif kind == "ExtendedResponse":
                out["name"] = None
                out["value"] = None
                if op.more() and op.peek()[:3] == (CONTEXT, False, 10):
                    out["name"] = op.text("responseName", CONTEXT, 10)
                if op.more() and op.peek()[:3] == (CONTEXT, False, 11):
                    out["value"] = op.octs("responseValue", CONTEXT, 11).hex()
            if op.more():
                raise Malformed("trailing data in %s" % kind)
        elif kind == "BindRequest":
            out["version"] = op.int_("version")
            out["name"] = op.text("name")
            out["auth"] = _dec_auth(op)
            if op.more():
                raise Malformed("trailing data in BindRequest")
        elif kind == "SearchRequest":
            out["base"] = op.text("baseObject")
            out["scope"] = op.int_("scope", 10)
            out["deref"] = op.int_("derefAliases", 10)
            out["size_limit"] = op.int_("sizeLimit")
            out["time_limit"] = op.int_("timeLimit")
            out["types_only"] = op.bool_("typesOnly")
            out["filter"] = _dec_filter(op, 0)
            at = op.sub(UNIVERSAL, 16, "attributes")
            out["attributes"] = []
            while at.more():
                out["attributes"].append(at.text("attribute selector"))
            if op.more():
                raise Malformed("trailing data in SearchRequest")
        elif kind == "SearchResultEntry":
            out["object_name"] = op.text("objectName")
            al = op.sub(UNIVERSAL, 16, "attributes")
            out["attributes"] = []
            while al.more():
                pa = al.sub(UNIVERSAL, 16, "PartialAttribute")
                name = pa.text("type")
                vs = pa.sub(UNIVERSAL, 17, "vals")
                vals = []
                while vs.more():
                    vals.append(vs.octs("value").hex())
                if pa.more():
                    raise Malformed("trailing data in PartialAttribute")
                out["attributes"].append({"name": name, "values": vals})
            if op.more():
                raise Malformed("trailing data in SearchResultEntry")
        elif kind == "SearchResultReference":
            out["uris"] = []
            while op.more():
                out["uris"].append(op.text("uri"))
        elif kind == "ExtendedRequest":
            out["name"] = op.text("requestName", CONTEXT, 0)
            out["value"] = None
            if op.more():
                out["value"] = op.octs("requestValue", CONTEXT, 1).hex()
            if op.more():
                raise Malformed("trailing data in ExtendedRequest")
        else:
            out["raw"] = bytes(buf[op.p : op.end]).hex()
    out["controls"] = []
    if env.more():
        out["controls"] = _dec_controls(env)
    if env.more():
        raise Malformed("trailing data in envelope")
    return out
